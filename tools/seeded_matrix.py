#!/usr/bin/env python3
"""Confirms independently written breaking changes and runs the quick checks against them.

  tools/seeded_matrix.py import <src-dir> <id>      copy /tmp/mut/X-out/N into /verif/seeded/<id>/
  tools/seeded_matrix.py confirm [<id> ...]         in a scratch worktree: suite passes with the patch,
                                                    demo fails with it and passes without it
  tools/seeded_matrix.py run [<id> ...]             apply each patch to /repo, run the quick checks of the
                                                    property it breaks, revert; update meta.json
  tools/seeded_matrix.py table                      regenerate /verif/seeded/README.md
"""
import glob, json, os, re, shutil, subprocess, sys, time

ROOT = os.path.dirname(os.path.dirname(os.path.abspath(__file__)))
SEEDED = os.path.join(ROOT, "seeded")
ENV = dict(os.environ, GOFLAGS="-mod=mod", GOPROXY="off", GOSUMDB="off", GOTOOLCHAIN="local")
SCRATCH = "/root/scratch/seeded_wt"


def sh(cmd, cwd=None, timeout=3600):
    try:
        return subprocess.run(cmd, shell=True, cwd=cwd, env=ENV, capture_output=True, text=True, errors="replace", timeout=timeout)
    except subprocess.TimeoutExpired as e:
        class R: pass
        r = R(); r.returncode = 124; r.stdout = (e.stdout or b"").decode() if isinstance(e.stdout, bytes) else (e.stdout or ""); r.stderr = "TIMEOUT"
        return r


def load_meta(d):
    p = os.path.join(d, "meta.json")
    return json.load(open(p)) if os.path.exists(p) else {}


def save_meta(d, m):
    json.dump(m, open(os.path.join(d, "meta.json"), "w"), indent=1, ensure_ascii=False)


def ids(args):
    all_ids = sorted(os.path.basename(d) for d in glob.glob(os.path.join(SEEDED, "*")) if os.path.isdir(d) and os.path.exists(os.path.join(d, "patch.diff")) and os.path.basename(d) != "own")
    return [i for i in all_ids if not args or i in args]


def demo_pkg(path):
    m = re.search(r"^package (\w+?)(_test)?$", open(path).read(), re.M)
    return m.group(1) if m else None


def cmd_import(src, sid):
    d = os.path.join(SEEDED, sid)
    os.makedirs(d, exist_ok=True)
    for f in os.listdir(src):
        if os.path.isfile(os.path.join(src, f)) and not f.endswith(".log"):
            shutil.copy(os.path.join(src, f), os.path.join(d, f))
    m = load_meta(d)
    m.setdefault("breaks", [re.search(r"C\d\d", sid).group(0) if re.search(r"C\d\d", sid) else sid[:3]])
    m.setdefault("origin", "sub-agent given only the property text and a scratch worktree")
    save_meta(d, m)


def cmd_confirm(args):
    sh(f"git -C /repo worktree remove --force {SCRATCH}")
    shutil.rmtree(SCRATCH, ignore_errors=True)
    assert sh(f"git -C /repo worktree add --detach {SCRATCH} HEAD").returncode == 0
    try:
        for sid in ids(args):
            d = os.path.join(SEEDED, sid)
            m = load_meta(d)
            demos = [f for f in os.listdir(d) if f.endswith("_test.go")]
            res = {"demos": demos}
            sh("git checkout -- . && git clean -fdq", cwd=SCRATCH)

            def run_demos():
                out = {}
                for f in demos:
                    pkg = demo_pkg(os.path.join(d, f))
                    if not pkg or not os.path.isdir(os.path.join(SCRATCH, pkg)):
                        out[f] = "no package"
                        continue
                    dst = os.path.join(SCRATCH, pkg, "zz_" + f)
                    shutil.copy(os.path.join(d, f), dst)
                    tests = re.findall(r"^func (Test\w+)\(", open(dst).read(), re.M)
                    extra = "-race" if "race" in open(os.path.join(d, "README.md")).read().lower() and "-race" in open(os.path.join(d, "README.md")).read() else ""
                    r = sh(f"go test -vet=off -count=1 {extra} -timeout 300s -run '^({'|'.join(tests)})$' ./{pkg}", cwd=SCRATCH, timeout=600)
                    out[f] = r.returncode
                    os.remove(dst)
                return out

            res["demo_unchanged"] = run_demos()
            a = sh(f"git apply {os.path.join(d, 'patch.diff')}", cwd=SCRATCH)
            if a.returncode != 0:
                res["error"] = "patch does not apply: " + a.stderr[-300:]
            else:
                s = sh("go build ./... && go test -vet=off -count=1 ./...", cwd=SCRATCH)
                res["suite_passes_with_change"] = s.returncode == 0
                if s.returncode != 0:
                    res["suite_output"] = (s.stdout + s.stderr)[-500:]
                res["demo_changed"] = run_demos()
            ok = res.get("suite_passes_with_change") and demos and all(v == 0 for v in res["demo_unchanged"].values()) and any(v not in (0, "no package") for v in res.get("demo_changed", {}).values())
            res["confirmed"] = bool(ok)
            m["confirmation"] = res
            m["ran_to_confirm"] = "scratch worktree of /repo HEAD: go test of the demonstration without the patch (passes), git apply patch.diff, go build ./... && go test -vet=off -count=1 ./... (passes), go test of the demonstration (fails)"
            save_meta(d, m)
            print(f"{sid:12s} confirmed={res['confirmed']} {json.dumps(res)[:260]}", flush=True)
    finally:
        sh(f"git -C /repo worktree remove --force {SCRATCH}")
        shutil.rmtree(SCRATCH, ignore_errors=True)


def cmd_run_alt(args, tier="quick"):
    """Like run, but applies each patch to a scratch worktree and points the check at it (VERIF_REPO),
    so that /repo is not touched and other checks may run at the same time."""
    import hashlib
    for sid in ids(args):
        d = os.path.join(SEEDED, sid)
        m = load_meta(d)
        props = list(m.get("breaks", [sid[:3]])) + [p for p in m.get("also_run", []) if p not in m.get("breaks", [])]
        wt = f"/root/scratch/alt_{sid}"
        sh(f"git -C /repo worktree remove --force {wt}")
        shutil.rmtree(wt, ignore_errors=True)
        assert sh(f"git -C /repo worktree add --detach {wt} HEAD").returncode == 0
        results = m.setdefault("check_results", {})
        try:
            results.pop("error", None)
            results.pop("applied", None)
            pf = os.path.join(d, 'patch.diff')
            if os.path.exists(os.path.join(d, 'patch_head.diff')):
                # the same change written again for the current tree (the original conflicts with a later fix: commit)
                pf = os.path.join(d, 'patch_head.diff')
                results["applied"] = "patch_head.diff (the same change ported to the current tree; patch.diff conflicts with a later fix: commit)"
            a = sh(f"git apply {pf}", cwd=wt)
            if a.returncode != 0:
                # the tree has moved on since the patch was written (later fix: commits): merge it
                a = sh(f"git apply --3way {pf}", cwd=wt)
                if a.returncode == 0:
                    results["applied"] = "with --3way (the tree has moved on since the patch was written)"
            if a.returncode != 0 or sh("go build ./...", cwd=wt).returncode != 0:
                results["error"] = "patch does not apply to the current tree: " + a.stderr[-200:]
            else:
                for p in props:
                    t0 = time.time()
                    r = sh(f"VERIF_REPO={wt} ./check {p} {tier} -no-minimise", cwd=ROOT, timeout=7200)
                    lines = r.stdout.splitlines()
                    results[f"{p}:{tier}"] = {"exit": r.returncode, "violation_lines": sum(l.startswith("VIOLATION") for l in lines),
                                              "first": [l.strip()[:260] for l in lines if l.startswith("  [")][:2], "wall_s": round(time.time() - t0, 1)}
        finally:
            sh(f"git -C /repo worktree remove --force {wt}")
            shutil.rmtree(wt, ignore_errors=True)
            h = hashlib.md5((wt + "\n").encode()).hexdigest()[:8]
            shutil.rmtree(os.path.join(ROOT, ".build", "alt-" + h), ignore_errors=True)
        m["ran"] = "scratch worktree of /repo HEAD with patch.diff applied; VERIF_REPO=<worktree> ./check <ID> <tier> -no-minimise (same machinery, built against that tree); worktree and build output removed"
        save_meta(d, m)
        print(f"{sid:12s} " + " ".join(f"{k}=exit{v['exit']}" for k, v in results.items() if isinstance(v, dict)), flush=True)


def cmd_run(args, tier="quick", extra_props=None):
    assert sh("git status --porcelain", cwd="/repo").stdout.strip() == "", "/repo working tree must be clean"
    for sid in ids(args):
        d = os.path.join(SEEDED, sid)
        m = load_meta(d)
        props = list(m.get("breaks", [sid[:3]]))
        for p in (extra_props or []) + m.get("also_run", []):
            if p not in props:
                props.append(p)
        a = sh(f"git apply {os.path.join(d, 'patch.diff')}", cwd="/repo")
        results = m.setdefault("check_results", {})
        try:
            if a.returncode != 0:
                results["error"] = "patch does not apply to /repo: " + a.stderr[-200:]
            else:
                for p in props:
                    t0 = time.time()
                    r = sh(f"./check {p} {tier} -no-minimise", cwd=ROOT, timeout=7200)
                    lines = r.stdout.splitlines()
                    results[f"{p}:{tier}"] = {"exit": r.returncode, "violation_lines": sum(l.startswith("VIOLATION") for l in lines),
                                              "first": [l.strip()[:260] for l in lines if l.startswith("  [")][:2], "wall_s": round(time.time() - t0, 1)}
        finally:
            sh("git checkout -- .", cwd="/repo")
        m["ran"] = "git -C /repo apply patch.diff; ./check <ID> <tier> -no-minimise for the listed properties; git -C /repo checkout -- ."
        save_meta(d, m)
        print(f"{sid:12s} " + " ".join(f"{k}=exit{v['exit']}" for k, v in results.items() if isinstance(v, dict)), flush=True)


def cmd_table():
    rows = []
    for sid in ids([]):
        m = load_meta(os.path.join(SEEDED, sid))
        conf = m.get("confirmation", {}).get("confirmed")
        res = m.get("check_results", {})
        caught = sorted(k for k, v in res.items() if isinstance(v, dict) and v["exit"] == 1)
        missed = sorted(k for k, v in res.items() if isinstance(v, dict) and v["exit"] == 0)
        rows.append((sid, ",".join(m.get("breaks", [])), m.get("needs", "")[:110], "yes" if conf else "NO", ", ".join(caught) or "–", ", ".join(missed) or "–", m.get("note", "")[:160]))
    own = []
    p = os.path.join(SEEDED, "own", "summary.json")
    if os.path.exists(p):
        for r in json.load(open(p)):
            if r.get("suite_passes"):
                res = r.get("results", {})
                own.append((r["name"], ",".join(r["expected"]), r["needs"][:110], ", ".join(sorted(k for k, v in res.items() if v["exit"] == 1)) or "–", ", ".join(sorted(k for k, v in res.items() if v["exit"] == 0)) or "–"))
    with open(os.path.join(SEEDED, "README.md"), "w") as f:
        f.write("# Deliberately broken versions of go.sh and the checks that catch them\n\n")
        f.write("Regenerated by `tools/seeded_matrix.py table` from the meta.json files (actual runs of the checks against each patch applied to /repo, reverted afterwards).\n\n")
        f.write("## Independent changes (sub-agents saw only the property text and a scratch worktree)\n\n")
        f.write("| id | breaks | needs | confirmed (suite passes, demo fails with / passes without) | caught by | run but not caught by | note |\n|---|---|---|---|---|---|---|\n")
        for r in rows:
            f.write("| " + " | ".join(str(x).replace("|", "\\|").replace("\n", " ") for x in r) + " |\n")
        f.write("\n## Own list (tools/sensitivity.py; only mutants that pass the existing suite)\n\n| name | expected | needs | caught by | not caught by |\n|---|---|---|---|---|\n")
        for r in own:
            f.write("| " + " | ".join(str(x).replace("|", "\\|") for x in r) + " |\n")
    print(open(os.path.join(SEEDED, "README.md")).read())


if __name__ == "__main__":
    c = sys.argv[1] if len(sys.argv) > 1 else ""
    if c == "import":
        cmd_import(sys.argv[2], sys.argv[3])
    elif c == "confirm":
        cmd_confirm(sys.argv[2:])
    elif c == "run":
        tier = "quick"
        args = sys.argv[2:]
        if args and args[0] in ("quick", "thorough"):
            tier, args = args[0], args[1:]
        cmd_run(args, tier)
    elif c == "run-alt":
        tier = "quick"
        args = sys.argv[2:]
        if args and args[0] in ("quick", "thorough"):
            tier, args = args[0], args[1:]
        cmd_run_alt(args, tier)
    elif c == "table":
        cmd_table()
    else:
        print(__doc__)
