#!/usr/bin/env python3
"""Regenerates /verif/MANIFEST.json. Edit the tables here, not the JSON."""
import json, subprocess, os

ROOT = os.path.dirname(os.path.dirname(os.path.abspath(__file__)))

def hook_commits():
    out = subprocess.run(["git", "-C", "/repo", "log", "--format=%H %s"], capture_output=True, text=True).stdout
    return [l.split()[0] for l in out.splitlines() if "verif" in l and not l.split(" ", 1)[1].startswith("fix:")]

CLAIMED = {
 "C01": dict(cat="exploration", tech="deterministic simulation: seeded schedules x source kinds (incl. failing sources) x panicnil/386 lanes over exhaustive short token strings, generated programs, mutants and huge flat inputs; process-death, deadlock and hang detection",
   text="Every token string of length <=3 over the shell alphabet, curated crashers, generated programs and mutants are parsed inside the simulator under both extreme schedules and seeded ones, with all four source kinds, with and without alias tables, in separate worker processes running with GODEBUG=panicnil=0 and =1. A panic in any goroutine kills the worker and is attributed to the case; deadlocks, step-budget overruns and reader no-progress loops are detected by the scheduler. Sampling beyond the enumerated token strings: evidence, not proof.",
   note="Trusts go1.26.8 testing/synctest quiescence; hangs inside non-yielding code are caught by a watchdog (20 s without a finished run, judged by the process's CPU time and run-queue wait so that a starved process is not called hung); a third lane runs every eighth case in a GOARCH=386 build; huge flat inputs run under a 16 MiB stack limit and a step budget linear in the input; inputs beyond the enumerated/sampled ones are not covered.", ref="DESIGN.md §5 C01"),
 "C06": dict(cat="exploration", tech="deterministic simulation: real goroutines parked at verifYield hooks, seeded scheduler with choice tape, cross-schedule result comparison, quiescence-at-return and leak invariants",
   text="For each case (valid, invalid, parser error followed by lexer error, reader faults, arithmetic with several faults) the real ParseCommands/Eval/Expand run under parser-first, lexer-first and N seeded schedules (uniform, sticky, PCT, alternate) with select ties forced from the tape; the canonical dump of everything returned plus the reader offset must be identical across schedules, every lexer goroutine must have exited when the entry point returns, no reader operation may happen afterwards and nothing may stay blocked. Violations are minimised (generator tape, text, schedule tape) and written as replay files that reproduce the same event log.",
   note="Interleavings are explored at the granularity of the hook points (every native blocking operation); data races inside unsynchronised stretches are the race lane's business (see DESIGN.md §3.9). Sampling, not enumeration.", ref="DESIGN.md §5 C06"),
 "C07": dict(cat="exploration", tech="deterministic simulation: call histories on one shared simulated RuneScanner (strict / multi-step UnreadRune) under seeded schedules, per-call consumption and separate-parse oracle",
   text="Streams of 1-8 generated complete commands (multi-line compounds, here-documents, trailing comments, continuations, blank lines, missing final newline) are read by successive ParseCommands calls from one SimReader; after every call the reader offset must equal the generator's end offset of that command, the result must equal the parse of that command alone, blank lines give empty results, the number of calls equals the number of commands, and no reader operation may happen after a call returned (drain phase).",
   note="The oracle depends on the generator's own notion of where a complete command ends (POSIX grammar); comment-only lines between commands are not generated because the property does not pin them. Sampling.", ref="DESIGN.md §5 C07"),
 "C08": dict(cat="exploration", tech="deterministic simulation: here-document push/pop pipeline under extreme and seeded schedules, AST redirections vs generator ground truth with an independent unparser",
   text="Generated commands with here-documents at every redirection site (compound commands, pipelines, lists, $( ), several per line, << and <<-, all delimiter quotings, adversarial body lines) are parsed under parser-first, lexer-first and seeded schedules; the here-document Redir nodes in source order must match the generator's list one to one: delimiter after quote removal, body byte for byte (own unparser), expansion nodes iff the delimiter was unquoted, tab-indented <<- delimiter recognised, identical under every schedule.",
   note="Bodies are limited to forms the harness's unparser and its independent expansion scanner cover (simple $x/${x}/$( )/$(( ))/backquote forms, backslash escapes and continuations); sampling.", ref="DESIGN.md §5 C08"),
 "C10": dict(cat="fault_enumeration", tech="deterministic simulation with fault injection: complete single-fault enumeration over reader positions x fault kinds (persistent, transient, data+err, zero-progress, short reads) x schedules",
   text="For every (program, reader variant) the complete set of single-fault positions is enumerated — every rune start for the RuneScanner, every byte offset for the io.Reader behind bufio, with persistent, transient, data+err, chunked and zero-progress behaviours — and each is run under both extreme schedules and a seeded one. Whenever the failure was delivered to the parser the returned error must be non-nil and errors.Is the injected error (io.ErrNoProgress for zero-progress), and the call must return.",
   note="Programs and schedules are sampled; the single-fault space per program is enumerated completely. For io.Reader sources the obligation is restricted to faults inside the extent the fault-free run consumed (bufio read-ahead may swallow later faults unseen).", ref="DESIGN.md §5 C10"),
 "C18": dict(cat="fault_enumeration", tech="writer fault injection with complete enumeration of failure offsets (fail-after-k, short write, chunked) x 256 printer Configs; fix-point, determinism and tree-purity oracles",
   text="Every program is printed under all 256 Configs in a fault-free lane (second print identical, deep dump of the tree unchanged, re-parse succeeds and prints to the same bytes) and, for 8 seeded Configs, against writers that fail / short-write after k bytes for every k in [0,L] (sampled around the 4096/8192-byte bufio boundaries for large outputs) or accept only small chunks: a fault before the end must be returned as an error that errors.Is the injected one (io.ErrShortWrite for short writes), the accepted bytes must be a prefix of the fault-free output, nothing panics, the tree is unchanged and the next fault-free print is unchanged. Comment, word and word-part nodes are printed to writers failing after every k as well.",
   note="No concurrency is involved (the printer is sequential): this check uses the simulator's fault-injecting writer but not its scheduler. Programs are sampled; the single-fault space per (program, Config, kind) is enumerated completely for outputs up to 512 bytes.", ref="DESIGN.md §5 C18"),
 "C20": dict(cat="exploration", tech="deterministic simulation of operation histories on one ExecEnv (Eval/Expand steps under the seeded scheduler) checked step by step against a reference map model",
   text="Seeded histories of Set/Unset/Get/Walk/Args/Opts changes and assigning or failing expansions/evaluations over a small name universe (ordinary, case-differing, special, positional, multi-digit positional) are executed on the real ExecEnv; after every step Get of every name, the Walk set, Args, Opts, Aliases and the AST passed to Expand are compared with a plain map model written from the POSIX definitions, and the whole history must produce the same dump under parser-first, lexer-first and a seeded schedule.",
   note="Templates whose effect C20 does not pin (short-circuit operators, arithmetic that both assigns and faults, non-numeric operands) are not generated; $$ is outside the universe. Sampling.", ref="DESIGN.md §5 C20"),
}

NA = {
 "C02": "Pure function of the program text once C06 holds; deciding it is grammar-directed input generation against a skeleton oracle — there is no schedule, fault or history for a simulator to search.",
 "C03": "Classification valid/invalid and the error position are functions of the text alone (which error is returned under which interleaving is decided under C06); pure input generation + recogniser oracle, not simulation.",
 "C04": "Intrinsic relation between (source, AST) positions computed by sequential arithmetic in lexer/ast; nothing to schedule or fault.",
 "C05": "print∘parse round trip over programs × 256 Configs: sequential printer plus a parser that is schedule-independent by C06; a pure-function property.",
 "C09": "Metamorphic relation between two parses of two texts; pure given C06, no fault/schedule/history dimension.",
 "C11": "C semantics of Eval is a pure function of (expression, store); its schedule-sensitive clause (same error on every run, no assignment after the first fault varying with the select pick) is an instance of C06's Eval clause and is decided there.",
 "C12": "pattern.Match is sequential allocation-only code (string → regexp → match): no goroutine, I/O, shared state or time.",
 "C13": "Expansion table over parameter states: sequential, pure function of (word, env); the nested Eval is covered by C06.",
 "C14": "Field splitting is sequential string processing; pure.",
 "C15": "quote → parse → expand identity: pure given C06 (environment and cwd are inputs, not faults).",
 "C16": "Glob is a sequential pure function of (pattern, file-system snapshot); the property has no fault or concurrent-modification clause and directory enumeration order is neutralised by an unconditional sort; checking the match set is generator+oracle work.",
 "C17": "Alias substitution equals textual replacement: pure given C06; its 'every alias table terminates' clause is exercised under C01 (seeded alias tables incl. cycles are part of C01's quantifier).",
 "C19": "No-panic of Pos/End/Fprint/Expand/Match/Glob/Option.String on parser output: sequential and pure; the one concurrent slice (a panic or leak in Eval's lexer goroutine) is observed by C06's Eval runs.",
}

def main():
    checks = []
    for pid in sorted(CLAIMED):
        c = CLAIMED[pid]
        checks.append({
            "property_id": pid,
            "quick_cmd": f"./check {pid} quick",
            "thorough_cmd": f"./check {pid} thorough",
            "evidence_file": f"/verif/evidence/{pid}.json",
            "replay_cmd_template": "./check --replay {path}",
            "engine": "gosim",
            "level_claimed": {"category": c["cat"], "text": c["text"], "design_ref": c["ref"]},
            "level_note": c["note"],
            "technique": c["tech"],
        })
    m = {
        "version": 1,
        "setup_cmd": "./check --build",
        "hooks": {
            "guard": "verif",
            "enable": "go1.26.8 test -c -tags verif (harness module /verif/sim with replace github.com/hattya/go.sh => /repo)",
            "baseline_off_cmd": "cd /repo && go test -vet=off -count=1 ./...",
            "source_commits": hook_commits(),
            "add_only": True,
        },
        "engines": [{
            "name": "gosim", "path": "/verif/sim",
            "serves_properties": sorted(CLAIMED),
            "kind_free_text": "deterministic simulator: real go.sh goroutines parked at build-tag-guarded yield hooks, released one at a time by a seeded scheduler inside a testing/synctest bubble; simulated RuneScanner/Reader/Writer with fault injection; one seed + choice tape per run; replay files",
        }],
        "checks": checks,
        "notes": "Every check rebuilds the worker from /repo's working tree (go1.26.8, -tags verif). Exit 0 held / 1 violation / 2 harness trouble. VERIF_SEED and VERIF_TIER honoured. Genuine defects found and repaired are listed in known_findings.json (status fixed).",
        "not_applicable": [{"property_id": k, "reason": NA[k]} for k in sorted(NA) if k not in CLAIMED],
    }
    with open(os.path.join(ROOT, "MANIFEST.json"), "w") as f:
        json.dump(m, f, indent=1, ensure_ascii=False)
        f.write("\n")

main()
