#!/usr/bin/env python3
"""Systematic mutation sweep (development aid): small syntactic mutants of go.sh sources that
compile and pass the repository's own suite are run against the quick checks (built against a
scratch worktree through VERIF_REPO, /repo is never touched). Survivors are listed for manual
triage: equivalent mutant / breaks only a not-applicable property / blind spot of a claimed check.

  tools/mutate.py <file> [--max N] [--start K] [--props C01,C06,...] [--out results.jsonl]
"""
import argparse, hashlib, json, os, random, re, shutil, subprocess, sys, time

ROOT = os.path.dirname(os.path.dirname(os.path.abspath(__file__)))
ENV = dict(os.environ, GOFLAGS="-mod=mod", GOPROXY="off", GOSUMDB="off", GOTOOLCHAIN="local")
WT = "/root/scratch/mutate_wt"

DEFAULT_PROPS = {
    "parser/lexer.go": ["C06", "C07", "C08", "C10", "C01"],
    "parser/parser.go": ["C06", "C07", "C08"],
    "interp/lexer.go": ["C06", "C20"],
    "interp/arith.go": ["C06", "C20"],
    "interp/interp.go": ["C20"],
    "interp/expand.go": ["C20", "C06"],
    "printer/printer.go": ["C18"],
    "ast/ast.go": ["C18"],
}


def sh(cmd, cwd=None, timeout=3600):
    try:
        return subprocess.run(cmd, shell=True, cwd=cwd, env=ENV, capture_output=True, text=True, errors="replace", timeout=timeout)
    except subprocess.TimeoutExpired:
        class R: returncode = 124; stdout = ""; stderr = "TIMEOUT"
        return R()


def mutants(src):
    """yield (line_no, description, new_line_or_None)"""
    lines = src.split("\n")
    in_func = False
    for i, l in enumerate(lines):
        st = l.strip()
        if l.startswith("func "):
            in_func = True
        if not in_func or not st or st.startswith("//") or "verifYield" in l or "verif" in st[:8]:
            continue
        # statement deletion
        if re.match(r"^(l|p|env|ll|h|w|b|q|pe)\.[A-Za-z.]+\(.*\)$", st) or re.match(r"^[A-Za-z_.\[\]0-9]+ (=|\+=|-=|\|=) .+$", st) and not st.endswith("{"):
            yield i, "delete statement: " + st, None
        if st in ("break", "continue", "fallthrough"):
            yield i, "delete " + st, None
        # operator flips inside conditions
        if st.startswith(("if ", "} else if ", "for ", "case ")) or " && " in st or " || " in st:
            for a, b in (("==", "!="), ("!=", "=="), (" && ", " || "), (" || ", " && "), (" < ", " <= "), (" > ", " >= "), (" <= ", " < "), (" >= ", " > ")):
                for m in re.finditer(re.escape(a), l):
                    yield i, f"{a.strip()} -> {b.strip()} at col {m.start()}: {st}", l[:m.start()] + b + l[m.end():]
            m = re.match(r"^(\s*(?:} else )?if )(.+)( \{)$", l)
            if m and not m.group(2).startswith("!") and ";" not in m.group(2):
                yield i, "negate condition: " + st, f"{m.group(1)}!({m.group(2)}){m.group(3)}"
        # constants
        for a, b in (("(0)", "(1)"), ("(-1)", "(0)"), ("(-2)", "(-1)"), ("+1", "+2"), ("-1]", "-2]"), ("true", "false"), ("false", "true"), ("len(l.word)-1", "len(l.word)-2")):
            if a in l and not st.startswith("//"):
                j = l.index(a)
                yield i, f"{a} -> {b}: {st}", l[:j] + b + l[j + len(a):]
        if st.startswith("return ") and st not in ("return nil", "return"):
            if st == "return true":
                yield i, "return true -> false", l.replace("return true", "return false")
            elif st == "return false":
                yield i, "return false -> true", l.replace("return false", "return true")


def main():
    ap = argparse.ArgumentParser()
    ap.add_argument("file")
    ap.add_argument("--max", type=int, default=40)
    ap.add_argument("--start", type=int, default=0)
    ap.add_argument("--seed", type=int, default=1)
    ap.add_argument("--props", default="")
    ap.add_argument("--out", default=os.path.join(ROOT, ".build", "mutation_results.jsonl"))
    a = ap.parse_args()
    props = a.props.split(",") if a.props else DEFAULT_PROPS.get(a.file, ["C06"])
    sh(f"git -C /repo worktree remove --force {WT}")
    shutil.rmtree(WT, ignore_errors=True)
    assert sh(f"git -C /repo worktree add --detach {WT} HEAD").returncode == 0
    path = os.path.join(WT, a.file)
    orig = open(path).read()
    ms = list(mutants(orig))
    random.Random(a.seed).shuffle(ms)
    ms = ms[a.start:]
    print(f"{len(ms)} candidate mutants of {a.file}; running up to {a.max} that survive the repository's suite", flush=True)
    done = 0
    try:
        for (ln, desc, new) in ms:
            if done >= a.max:
                break
            lines = orig.split("\n")
            if new is None:
                del lines[ln]
            else:
                lines[ln] = new
            open(path, "w").write("\n".join(lines))
            b = sh("go build ./... 2>&1 && go vet ./" + os.path.dirname(a.file) + " 2>&1", cwd=WT, timeout=300)
            if b.returncode != 0:
                continue
            t = sh("go test -vet=off -count=1 -timeout 120s ./... 2>&1", cwd=WT, timeout=400)
            rec = {"file": a.file, "line": ln + 1, "desc": desc}
            if t.returncode != 0:
                rec["killed_by"] = "suite"
            else:
                done += 1
                rec["diff"] = sh("git diff -U1", cwd=WT).stdout[-1500:]
                rec["checks"] = {}
                for p in props:
                    r = sh(f"VERIF_REPO={WT} ./check {p} quick -no-minimise", cwd=ROOT, timeout=3600)
                    rec["checks"][p] = r.returncode
                    if r.returncode == 1:
                        rec["killed_by"] = p
                        rec["first"] = [l.strip()[:200] for l in r.stdout.splitlines() if l.startswith("  [")][:1]
                        break
                    if r.returncode not in (0, 1):
                        rec["harness"] = (r.stdout + r.stderr)[-300:]
                if "killed_by" not in rec:
                    rec["killed_by"] = "SURVIVED"
                print(f"L{ln+1:5d} {rec['killed_by']:9s} {desc[:110]}", flush=True)
            with open(a.out, "a") as f:
                f.write(json.dumps(rec) + "\n")
    finally:
        open(path, "w").write(orig)
        sh(f"git -C /repo worktree remove --force {WT}")
        shutil.rmtree(WT, ignore_errors=True)
        h = hashlib.md5((WT + "\n").encode()).hexdigest()[:8]
        shutil.rmtree(os.path.join(ROOT, ".build", "alt-" + h), ignore_errors=True)


main()
