#!/usr/bin/env python3
"""Sensitivity self-test: apply deliberate breaks to /repo's working tree (never committed),
make sure each still compiles and passes the repository's own test suite, run the quick checks
that are expected to catch it, and revert. Usage: tools/sensitivity.py [name-substring ...]
Writes /verif/seeded/own/<name>/{patch.diff,meta.json} and prints a table."""
import json, os, subprocess, sys, time

ROOT = os.path.dirname(os.path.dirname(os.path.abspath(__file__)))
ENV = dict(os.environ, GOFLAGS="-mod=mod", GOPROXY="off", GOSUMDB="off", GOTOOLCHAIN="local")

# (name, expected-to-catch property ids, what it needs, [(file, old, new), ...])
MUTANTS = [
 ("no-join-parsecommands", ["C06"], "a failed parse: the lexer goroutine is still waiting when ParseCommands returns",
  [("parser/parser.go", "\tyyParse(l)\n\tl.stop()\n", "\tyyParse(l)\n")]),
 ("no-join-eval", ["C06"], "an arithmetic expression with an error: the lexer goroutine outlives Eval",
  [("interp/arith.go", "\tyyParse(l)\n\tl.stop()\n", "\tyyParse(l)\n"), ("interp/arith.go", "\t\te := recover()\n\t\tl.stop()\n", "\t\te := recover()\n")]),
 ("no-demand-handshake", ["C06"], "lexer scans ahead of the parser again: consumption after an error depends on the schedule",
  [("parser/lexer.go", "\tl.mark(0)\n\tl.wait()\n}\n\n// wait blocks", "\tl.mark(0)\n}\n\n// wait blocks"),
   ("parser/lexer.go", "\t// request the next token\n\tselect {\n\tcase l.next <- struct{}{}:\n\tcase <-l.done:\n\t}\n", ""),
   ("parser/lexer.go", "\tl.wait()\n\tfor action := l.lexPipeline", "\tfor action := l.lexPipeline")]),
 ("bailout-always-repanics", ["C01", "C06"], "any cancelled parse (syntax error with the lexer still active)",
  [("parser/lexer.go", "\t\t\tif _, ok := e.(bailout); !ok {\n\t\t\t\t// re-panic\n\t\t\t\tpanic(e)\n\t\t\t}\n", "\t\t\t// re-panic\n\t\t\tpanic(e)\n")]),
 ("emit-after-error", ["C06"], "look-ahead error in lexSimpleCmd followed by emit: select tie",
  [("parser/lexer.go", "\tselect {\n\tcase <-l.cancel:\n\t\t// an error has been recorded\n\t\tpanic(bailout{})\n\tdefault:\n\t}\n", "")]),
 ("interp-wait-ignores-cancel", ["C06"], "Eval: a rule action reports an error and keeps parsing; the lexer goes on",
  [("interp/lexer.go", "\tcase <-l.next:\n\t\tselect {\n\t\tcase <-l.cancel:\n\t\t\tpanic(bailout{})\n\t\tdefault:\n\t\t}\n", "\tcase <-l.next:\n")]),
 ("heredoc-pop-lifo", ["C08"], "two here-documents on one line",
  [("parser/lexer.go", "\t\t\tr := h.stack[0]\n\t\t\th.stack = h.stack[1:]\n", "\t\t\tr := h.stack[n-1]\n\t\t\th.stack = h.stack[:n-1]\n")]),
 ("heredoc-dash-strips-blanks", ["C08"], "'<<-' body line ' E' (blank-indented delimiter look-alike)",
  [("parser/lexer.go", 's = strings.TrimLeft(s, "\\t")', 's = strings.TrimLeft(s, "\\t ")')]),
 ("heredoc-not-read-in-linebreak", ["C08", "C07"], "here-document operator followed by '&&'/'|' and a newline",
  [("parser/lexer.go", "\t\t\tif l.heredoc.exists() && !l.scanHeredoc() {\n\t\t\t\treturn false\n\t\t\t}\n", "")]),
 ("comment-swallows-newline", ["C07"], "trailing comment after a command",
  [("parser/lexer.go", "\t\t\tif !l.begun {\n", "\t\t\tif true {\n")]),
 ("read-error-overwritten", ["C10"], "read fault followed by a syntax error",
  [("parser/lexer.go", "\tif _, ok := l.err.(Error); ok || l.err == nil {\n\t\t// a read error is not replaced by a syntax error\n\t\tl.err = Error{\n\t\t\tName: l.name,\n\t\t\tPos:  pos,\n\t\t\tMsg:  msg,\n\t\t}\n\t}\n",
    "\tl.err = Error{\n\t\tName: l.name,\n\t\tPos:  pos,\n\t\tMsg:  msg,\n\t}\n")]),
 ("read-error-dropped-at-eof-check", ["C10"], "transient read error inside a word: treated like EOF",
  [("parser/lexer.go", "\t\t\t\tif err == io.EOF {\n\t\t\t\t\tif l.lit(); len(l.word) != 0 {\n\t\t\t\t\t\treturn WORD\n\t\t\t\t\t}\n\t\t\t\t\treturn 0\n\t\t\t\t}\n\t\t\t\treturn -1\n",
    "\t\t\t\tif l.lit(); len(l.word) != 0 {\n\t\t\t\t\treturn WORD\n\t\t\t\t}\n\t\t\t\treturn 0\n")]),
 ("read-records-no-error", ["C10"], "any read fault: read() forgets to record it",
  [("parser/lexer.go", "\t\tcase l.err == nil:\n\t\t\tl.err = err\n", "\t\tcase l.err == nil && l.eof:\n\t\t\tl.err = err\n")]),
 ("printer-flush-error-dropped", ["C18"], "writer failing after k bytes",
  [("printer/printer.go", "\tp.heredoc()\n\treturn p.w.Flush()\n", "\tp.heredoc()\n\tp.w.Flush()\n\treturn nil\n")]),
 ("printer-undo-dropped", ["C18"], "if with Then:Newline style: the hidden separator is not restored",
  [("printer/printer.go", "\t\t\tif p.cfg.Then&Newline != 0 {\n\t\t\t\tif undo := p.trim(cond[len(cond)-1]); undo != nil {\n\t\t\t\t\tdefer undo()\n\t\t\t\t}\n\t\t\t}\n",
    "\t\t\tif p.cfg.Then&Newline != 0 {\n\t\t\t\tp.trim(cond[len(cond)-1])\n\t\t\t}\n")]),
 ("printer-heredoc-after-compound", ["C18"], "here-document on a line that continues with a multi-line compound command",
  [("printer/printer.go", "\t// here-documents begin after the next newline\n\tfor i, list := range p.stack {\n\t\tfor _, r := range list {\n\t\t\tp.word(r.Heredoc)\n\t\t\tp.word(r.Delim)\n\t\t\tp.w.WriteByte('\\n')\n\t\t}\n\t\tp.stack[i] = nil\n\t}\n", "")]),
 ("set-accepts-positional", ["C20"], "Set(\"1\", v) followed by Get/Walk",
  [("interp/interp.go", "\tif env.isSpParam(name) || env.isPosParam(name) {\n\t\treturn\n\t}\n", "\tif env.isSpParam(name) {\n\t\treturn\n\t}\n")]),
 ("assign-default-when-null-without-colon", ["C20"], "${x=w} with x set but empty",
  [("interp/expand.go", "\t\t\tcase !set || pe.Op == \":=\":\n", "\t\t\tcase !set || null:\n")]),
 ("failed-expansion-assigns", ["C20"], "${x:?} on an unset parameter leaves it assigned",
  [("interp/expand.go", "\t\t\tcase !set || pe.Op == \":?\":\n\t\t\t\tvar msg string\n", "\t\t\tcase !set || pe.Op == \":?\":\n\t\t\t\tenv.Set(pe.Name.Value, \"\")\n\t\t\t\tvar msg string\n")]),
 ("unset-case-insensitive", ["C20"], "Unset(\"x\") also removes X",
  [("interp/interp.go", "\tdelete(env.vars, env.keyFor(name))\n", "\tdelete(env.vars, env.keyFor(name))\n\tdelete(env.vars, env.keyFor(strings.ToUpper(name)))\n")]),
 ("alias-loop-guard-removed", ["C01"], "self-referential alias table",
  [("parser/lexer.go", "\t\t\t\t\tif a.name == w.Value {\n\t\t\t\t\t\treturn false\n\t\t\t\t\t}\n", "\t\t\t\t\tif a.name == w.Value && len(l.aliases) > 64 {\n\t\t\t\t\t\treturn false\n\t\t\t\t\t}\n")]),
 ("heredoc-empty-first-line-crash", ["C01", "C08"], "here-document whose first line is empty",
  [("parser/lexer.go", "\t\t\t\tvar w1 *ast.Lit\n\t\t\t\tif len(l.word) != 0 {\n\t\t\t\t\tw1, _ = l.word[len(l.word)-1].(*ast.Lit)\n\t\t\t\t}\n", "\t\t\t\tw1, _ := l.word[len(l.word)-1].(*ast.Lit)\n")]),
]

def sh(cmd, cwd=None, timeout=1800):
    return subprocess.run(cmd, shell=True, cwd=cwd, env=ENV, capture_output=True, text=True, errors="replace", timeout=timeout)

def revert():
    sh("git checkout -- .", cwd="/repo")

def main():
    sel = sys.argv[1:]
    assert sh("git status --porcelain", cwd="/repo").stdout.strip() == "", "/repo working tree must be clean"
    rows = []
    for name, expect, needs, edits in MUTANTS:
        if sel and not any(s in name for s in sel):
            continue
        row = {"name": name, "expected": expect, "needs": needs, "results": {}}
        try:
            ok = True
            for f, old, new in edits:
                p = os.path.join("/repo", f)
                s = open(p).read()
                if s.count(old) != 1:
                    row["error"] = f"anchor not found exactly once in {f} ({s.count(old)})"
                    ok = False
                    break
                open(p, "w").write(s.replace(old, new))
            if ok:
                b = sh("go build ./... && go vet ./... >/dev/null 2>&1; go test -vet=off -count=1 ./...", cwd="/repo")
                row["suite_passes"] = b.returncode == 0
                if b.returncode != 0:
                    row["error"] = "does not build or the existing suite fails: " + (b.stdout + b.stderr)[-400:]
                    ok = False
            if ok:
                diff = sh("git diff", cwd="/repo").stdout
                d = os.path.join(ROOT, "seeded", "own", name)
                os.makedirs(d, exist_ok=True)
                open(os.path.join(d, "patch.diff"), "w").write(diff)
                for pid in expect:
                    t0 = time.time()
                    r = sh(f"./check {pid} quick -no-minimise", cwd=ROOT)
                    viol = [l for l in r.stdout.splitlines() if l.startswith("VIOLATION")]
                    classes = [l.strip() for l in r.stdout.splitlines() if l.startswith("  [")][:3]
                    row["results"][pid] = {"exit": r.returncode, "violation_lines": len(viol), "first": classes[:2], "wall_s": round(time.time() - t0, 1)}
                meta = {"breaks": expect, "needs": needs, "origin": "own list (tools/sensitivity.py)", "suite_passes_with_change": True,
                        "ran": {pid: f"./check {pid} quick -no-minimise" for pid in expect}, "results": row["results"]}
                json.dump(meta, open(os.path.join(d, "meta.json"), "w"), indent=1)
        finally:
            revert()
        rows.append(row)
        caught = all(v["exit"] == 1 for v in row["results"].values()) if row["results"] else False
        print(f"{name:42s} suite_ok={row.get('suite_passes')} caught={caught} {json.dumps(row['results'])[:300]} {row.get('error','')[:200]}", flush=True)
    json.dump(rows, open(os.path.join(ROOT, "seeded", "own", "summary.json"), "w"), indent=1)

main()
