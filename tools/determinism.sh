#!/bin/bash
# Determinism self-test of the simulator: the same (property, seed, case range) is executed by
# many worker processes at GOMAXPROCS 1, 4 and 16; the per-run event-log hashes and result hashes
# must be byte-identical across all of them. Usage: tools/determinism.sh [ncases] [procs-per-setting]
set -u
ROOT="$(cd "$(dirname "${BASH_SOURCE[0]}")/.." && pwd)"
N="${1:-300}"; REP="${2:-10}"
"$ROOT/check" --build || exit 2
OUT="$ROOT/.build/determinism"; rm -rf "$OUT"; mkdir -p "$OUT" "$ROOT/.build/cwd"
fail=0
for prop in C01 C06 C07 C08 C10 C20; do
  for seed in 1 7; do
    pids=()
    for g in 1 4 16; do
      for r in $(seq 1 "$REP"); do
        ( cd "$ROOT/.build/cwd" && env -i PATH=/usr/bin:/bin HOME=/nonexistent GODEBUG=panicnil=1 GOMAXPROCS=$g \
            VERIF_JOB="{\"mode\":\"hashes\",\"prop\":\"$prop\",\"tier\":\"quick\",\"seed\":$seed,\"start\":$((r*37)),\"nshards\":$N}" \
            "$ROOT/.build/sim.test" -test.run '^TestWorker$' -test.timeout 0 2>/dev/null | grep -v '^PASS' | grep -v '^ok' > "$OUT/$prop.$seed.$g.$r" ) &
        pids+=($!)
      done
    done
    wait "${pids[@]}"
    # every repetition r uses the same start offset for all GOMAXPROCS values; compare across g, and r across runs of the same offset
    for r in $(seq 1 "$REP"); do
      ref="$OUT/$prop.$seed.1.$r"
      lines=$(wc -l < "$ref")
      for g in 4 16; do
        if ! cmp -s "$ref" "$OUT/$prop.$seed.$g.$r"; then echo "NONDETERMINISTIC: $prop seed=$seed offset=$((r*37)) GOMAXPROCS=1 vs $g"; fail=1; fi
      done
    done
    echo "$prop seed=$seed: $((3*REP)) processes, $(cat "$OUT/$prop.$seed.1."* | wc -l) runs per GOMAXPROCS setting compared"
  done
done
# same offset twice in different processes (r and r+REP would differ in offset), so also repeat offset 0 five times
for prop in C06 C07; do
  for i in 1 2 3 4 5; do
    ( cd "$ROOT/.build/cwd" && env -i PATH=/usr/bin:/bin HOME=/nonexistent GODEBUG=panicnil=1 GOMAXPROCS=$((i*3)) \
        VERIF_JOB="{\"mode\":\"hashes\",\"prop\":\"$prop\",\"tier\":\"quick\",\"seed\":3,\"start\":0,\"nshards\":$N}" \
        "$ROOT/.build/sim.test" -test.run '^TestWorker$' -test.timeout 0 2>/dev/null | grep -v '^PASS' | grep -v '^ok' > "$OUT/rep.$prop.$i" ) &
  done
  wait
  for i in 2 3 4 5; do cmp -s "$OUT/rep.$prop.1" "$OUT/rep.$prop.$i" || { echo "NONDETERMINISTIC: $prop repeated run $i"; fail=1; }; done
done
if [ $fail = 0 ]; then echo "determinism self-test: all event-log and result hashes identical"; else exit 1; fi
# hook transparency: simulated result == plain result (real scheduler, hook unset)
for prop in C01 C06 C08; do
  ( cd "$ROOT/.build/cwd" && env -i PATH=/usr/bin:/bin HOME=/nonexistent GODEBUG=panicnil=1 \
      VERIF_JOB="{\"mode\":\"transparency\",\"prop\":\"$prop\",\"tier\":\"quick\",\"seed\":1,\"start\":0,\"nshards\":3000}" \
      "$ROOT/.build/sim.test" -test.run '^TestWorker$' -test.timeout 0 2>/dev/null | grep -E '^(MISMATCH|transparency)' | tail -5 )
done
