#!/bin/bash
# Prepares one wave of independent breakage experiments: a scratch worktree of /repo and a prompt file per
# claimed property under /tmp/mut (sub-agents get only the property text, never anything from /verif).
#   tools/wave_prompts.sh <wave-number>
set -e
W=$1
mkdir -p /tmp/mut && cd /repo && for id in C01 C06 C07 C08 C10 C18 C20; do git worktree add -q --detach /tmp/mut/W$W-$id HEAD && mkdir -p /tmp/mut/W$W-$id-out; done
WAVE=$W python3 - <<'EOF'
import json, glob, os
W=os.environ['WAVE']
props={}
for l in open('/verif/properties.jsonl'):
    p=json.loads(l); props[p['id']]=p
known={}
for d in sorted(glob.glob('/verif/seeded/*/meta.json')):
    m=json.load(open(d)); sid=d.split('/')[-2]
    if sid=='own': continue
    pid=m['breaks'][0]
    known.setdefault(pid,[]).append(m.get('needs','')[:120])
T='''You are helping to evaluate a verification effort for the Go library hattya/go.sh (a POSIX shell command language parser with AST, pretty-printer, word expansion, arithmetic evaluator and glob matching). You get your OWN scratch git worktree of the repository at: WORKTREE
Work ONLY inside that directory (and /tmp/mut/NAME-out for your deliverables). Never touch /repo or /verif, and do not read anything under /verif. Do NOT use `git stash` (the stash is shared between worktrees); use `git diff > file`, `git checkout -- .` and `git apply` instead.

Environment: no network. For every shell command export: GOFLAGS=-mod=mod GOPROXY=off GOSUMDB=off  (the default `go` is 1.23 and works offline; `cd WORKTREE && go build ./... && go test -vet=off -count=1 ./...` must pass on the unchanged worktree — check that first).

The property under study:

PROPERTY_TEXT

Your task: produce FOUR different, realistic changes (plausible refactoring slips, "optimisations", off-by-one errors, dropped synchronisation, reordered statements, a removed guard, a changed default, a wrong constant, two cooperating edits that each look harmless) to the NON-test Go sources of the worktree, each of which
  (a) still compiles, and the repository's existing test suite (`go test -vet=off -count=1 ./...`) still passes with it,
  (b) BREAKS the property above, and
  (c) needs something specific to manifest — a particular goroutine interleaving, a reader/writer fault at a particular point, a multi-step sequence of calls, an unusual input, or two cooperating sites — NOT something any ordinary use would expose at once.
Work like a reviewer hunting for the least-tested corner: read the relevant source files line by line, and for each branch ask "which input reaches this, and does any test in the repository pin its behaviour?". The best changes alter the behaviour of a branch that is reachable by valid (or at least plausible) input but that no existing test pins. Earlier rounds already produced the following ideas; do NOT repeat them or close variants of them (anything else is welcome, in any package, including helper packages the anchored code calls into):
KNOWN_IDEAS

Do not edit *_test.go files of the repository, go.mod, or the files verif.go / verif_on.go / verif_off.go; leave the `verifYield(...)` call lines in place (they are inert instrumentation; you may move code around them). If you change parser/parser.go.y or interp/arith.go.y, change the generated parser.go / arith.go consistently (goyacc is not installed; only the .go files are compiled).

For each change N in 1..4 create the directory /tmp/mut/NAME-out/N/ containing:
  - patch.diff : `git diff` of the change against the worktree's HEAD (apply-able with `git apply` from the repository root),
  - demo_test.go : a Go test file (package <pkg>_test) that can be copied into the relevant package directory of the repository and run with `go test`; it FAILS (test failure / panic / hang detected by its own timeout / race detector report with `go test -race`) with the change applied and PASSES on the unchanged worktree. If it needs many repetitions, a specific GOMAXPROCS, `-race` (say so in the README with the literal flag -race), or a fault-injecting io.RuneScanner / io.Reader / io.Writer, build that into the demonstration.
  - README.md : which clause of the property it breaks, what it needs in order to manifest, and the exact commands you ran with their observed results for both trees (changed: fails; unchanged: passes; existing suite: passes with the change).
After finishing each change, restore the worktree (`git checkout -- .`) before starting the next; leave the worktree clean at the end.
Resource rules: the machine is shared. Run at most two `go test`/`go build` processes at a time, always give `go test` an explicit `-timeout` (120s or less unless a demonstration needs more), do not run automated mutation sweeps or fuzzing campaigns, and before you finish make sure none of your test binaries is still running (`ps aux | grep /tmp/go-build` — kill only your own, by PID, never with a machine-wide pattern).
Verify everything yourself by actually running the commands. Prefer subtle changes over blatant ones. Do not spend time on exhaustive enumeration tools; four well-checked changes are the goal. Report back a short summary (one paragraph per change).
'''
for pid in ['C01','C06','C07','C08','C10','C18','C20']:
    p=props[pid]
    name=f'W{W}-'+pid
    txt=f"{p['id']}: {p['title']}\n\nSTATEMENT: {p['statement']}\n\nQUANTIFIER: {p['quantifier']['text']}\n"
    ki="\n".join("  - "+k for k in known.get(pid,[]))
    t=T.replace('WORKTREE',f'/tmp/mut/{name}').replace('NAME',name).replace('PROPERTY_TEXT',txt).replace('KNOWN_IDEAS',ki)
    open(f'/tmp/mut/prompt_{name}.txt','w').write(t)
print('ok')
EOF
