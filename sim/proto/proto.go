// Package proto defines the messages between the driver and its worker processes.
package proto

import "verifsim/props"

// Job is passed to a worker in the VERIF_JOB environment variable.
type Job struct {
	Mode    string `json:"mode"` // explore | serve | selftest
	Prop    string `json:"prop"`
	Tier    string `json:"tier"`
	Seed    uint64 `json:"seed"`
	Shard   int    `json:"shard"`
	NShards int    `json:"nshards"`
	Start   int    `json:"start"`   // first case index to consider
	OutDir  string `json:"out_dir"` // scratch directory for hash-set files
	MaxSec  int    `json:"max_sec"` // wall-clock safety cap (0: none)
	Lane    string `json:"lane"`    // informational: e.g. panicnil=0
}

// Request is one line on a serve-mode worker's stdin.
type Request struct {
	Op      string        `json:"op"` // judge | describe
	Prop    string        `json:"prop"`
	Tier    string        `json:"tier"`
	Seed    uint64        `json:"seed"`
	Idx     int           `json:"idx"`
	Case    *props.Case   `json:"case,omitempty"`
	Scheds  []props.Sched `json:"scheds,omitempty"`   // explicit schedules (tapes) — else Plan(seed,tier,idx)
	GenTape []uint32      `json:"gen_tape,omitempty"` // regenerate the case from this generator tape
	KeepLog bool          `json:"keep_log,omitempty"`
}

type ObsSummary struct {
	Sched      props.Sched `json:"sched"`
	Tape       []uint32    `json:"tape"`
	LogHash    uint64      `json:"log_hash"`
	Steps      int         `json:"steps"`
	Dump       string      `json:"dump,omitempty"`
	Log        []string    `json:"log,omitempty"`
	Violations []string    `json:"sim_violations,omitempty"`
}

type Response struct {
	OK       bool            `json:"ok"`
	Err      string          `json:"err,omitempty"`
	Case     *props.Case     `json:"case,omitempty"`
	Findings []props.Finding `json:"findings,omitempty"`
	Obs      []ObsSummary    `json:"obs,omitempty"`
}

// Violation is emitted by an exploring worker ("V" line).
type Violation struct {
	Idx     int           `json:"idx"`
	Case    *props.Case   `json:"case"`
	Finding props.Finding `json:"finding"`
	Obs     []ObsSummary  `json:"obs"` // the observations involved
	GenTape []uint32      `json:"gen_tape,omitempty"`
	Lane    string        `json:"lane,omitempty"`
}

// Stats is the summary an exploring worker emits at the end ("S" line).
type Stats struct {
	Cases      int            `json:"cases"`
	Runs       int            `json:"runs"`
	Nontrivial int            `json:"nontrivial"`
	Steps      int64          `json:"steps"`
	IOOps      int64          `json:"io_ops"`
	Probes     map[string]int `json:"probes"`
	Faults     map[string]int `json:"faults"` // fault kind -> times it actually fired
	Policies   map[string]int `json:"policies"`
	Samples    []Sample       `json:"samples"`
	LastIdx    int            `json:"last_idx"`
	Complete   bool           `json:"complete"` // reached the end of its index range
	Final      bool           `json:"final"`
	WallS      float64        `json:"wall_s"`
	Exhaustive map[string]int `json:"exhaustive,omitempty"` // named sub-spaces enumerated completely -> size
}

type Sample struct {
	Idx     int         `json:"idx"`
	Case    *props.Case `json:"case"`
	Tapes   [][]uint32  `json:"tapes"`
	Outcome string      `json:"outcome"`
}
