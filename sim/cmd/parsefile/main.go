// parsefile: ad-hoc helper, parses a file (or stdin) with go.sh and prints the result.
package main

import (
	"fmt"
	"io"
	"os"

	"github.com/hattya/go.sh/parser"
	"github.com/hattya/go.sh/printer"
)

func main() {
	var data []byte
	if len(os.Args) > 1 {
		data, _ = os.ReadFile(os.Args[1])
	} else {
		data, _ = io.ReadAll(os.Stdin)
	}
	cmds, comments, err := parser.ParseCommands(nil, "f", string(data))
	fmt.Printf("cmds=%d comments=%d err=%v\n", len(cmds), len(comments), err)
	for _, c := range cmds {
		printer.Fprint(os.Stdout, c)
		fmt.Println()
	}
}
