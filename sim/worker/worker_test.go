// The worker is a Go *test binary* because testing/synctest needs a *testing.T.
// It is never run by "go test" directly: the driver starts it with VERIF_JOB set.
package worker

import (
	"bufio"
	"encoding/binary"
	"encoding/json"
	"fmt"
	"os"
	"path/filepath"
	"runtime"
	"runtime/debug"
	"sort"
	"sync/atomic"
	"testing"
	"time"

	"verifsim/gosim"
	"verifsim/props"
	"verifsim/proto"
)

var progress atomic.Int64 // bumped on every finished simulated run (watchdog)
var curIdx atomic.Int64

func TestWorker(t *testing.T) {
	js := os.Getenv("VERIF_JOB")
	if js == "" {
		t.Skip("not started by the driver")
	}
	var job proto.Job
	if err := json.Unmarshal([]byte(js), &job); err != nil {
		fmt.Fprintln(os.Stderr, "HARNESS: bad job:", err)
		os.Exit(2)
	}
	if err := gosim.CheckHooks(); err != nil {
		fmt.Fprintln(os.Stderr, "HARNESS: hooks:", err)
		os.Exit(2)
	}
	out := bufio.NewWriterSize(os.Stdout, 1<<16)
	defer out.Flush()
	props.Tick = func() { progress.Add(1) }
	gosim.Alive = props.Tick
	// a modest stack limit: recursion that grows with the LENGTH of the input (not with its nesting depth,
	// which go.sh bounds) ends the process on inputs of a megabyte instead of hundreds of megabytes
	debug.SetMaxStack(16 << 20)
	switch job.Mode {
	case "explore":
		go watchdog(out)
		explore(t, &job, out)
	case "serve":
		go watchdog(out)
		serve(t, out)
	case "transparency":
		// hook-transparency self-test: the result under the simulator (both extreme schedules)
		// equals the result of the same call executed by the real scheduler with the hook unset
		p := props.Lookup(job.Prop)
		n, bad := 0, 0
		for idx := job.Start; idx < job.Start+job.NShards; idx++ {
			c, ok := p.Gen(job.Seed, job.Tier, idx)
			if !ok || c.Kind != "parse" {
				continue
			}
			plain := props.PlainParseDump(c)
			for pi := 0; pi < 2; pi++ {
				o := props.RunParse(t, c, props.Sched{PolicyIdx: pi}, false)
				n++
				if len(o.Parts) == 0 || o.Parts[0] != plain {
					bad++
					fmt.Fprintf(out, "MISMATCH idx=%d policy=%d src=%q\n", idx, pi, c.Src)
				}
			}
		}
		fmt.Fprintf(out, "transparency %s: %d simulated runs compared with the plain run, %d mismatches\n", job.Prop, n, bad)
	case "hashes":
		// determinism self-test: print the event-log hash and the result hash of every run of a case range
		p := props.Lookup(job.Prop)
		for idx := job.Start; idx < job.Start+job.NShards; idx++ {
			c, ok := p.Gen(job.Seed, job.Tier, idx)
			if !ok {
				continue
			}
			for si, s := range p.Plan(job.Seed, job.Tier, idx, c) {
				o := p.Run(t, c, s, false)
				fmt.Fprintf(out, "%d %d %016x %016x %d %d\n", idx, si, o.Res.LogHash, gosim.MixStr(0, o.Dump), o.Res.Steps, len(o.Res.Tape))
			}
		}
	default:
		fmt.Fprintln(os.Stderr, "HARNESS: unknown mode", job.Mode)
		os.Exit(2)
	}
}

// watchdog: outside every bubble. A run that makes no progress for 20 s (normal runs take about a millisecond)
// is reported as a hang; the 20 s are counted in the process's own time (gosim.CPUShare), so that a starved or
// throttled process is not taken for a hung one. The driver re-runs a reported case alone before it believes it.
func watchdog(out *bufio.Writer) {
	runtime.LockOSThread() // the calibration bursts measure this thread's CPU clock
	last := progress.Load()
	begin := time.Now()
	var eff time.Duration // time since the last progress, weighted by the share of a CPU this process could get
	prev := time.Now()
	for {
		time.Sleep(500 * time.Millisecond)
		share := gosim.CPUShare()
		now := time.Now()
		if p := progress.Load(); p != last {
			last, begin, eff, prev = p, now, 0, now
			continue
		}
		eff += time.Duration(float64(now.Sub(prev)) * share)
		prev = now
		var ms runtime.MemStats
		if now.Sub(begin) > 2*time.Second {
			runtime.ReadMemStats(&ms)
			if ms.HeapAlloc > 6<<30 {
				fmt.Fprintf(os.Stdout, "\nM %d\n", curIdx.Load())
				os.Exit(4)
			}
		}
		// 20 s "of this process's own time": a starved or throttled process is not a hung one
		switch {
		case eff > 20*time.Second:
			fmt.Fprintf(os.Stdout, "\nH %d\n", curIdx.Load())
			buf := make([]byte, 1<<16)
			n := runtime.Stack(buf, true)
			os.Stderr.Write(buf[:n])
			os.Exit(3)
		case now.Sub(begin) > 15*time.Minute:
			fmt.Fprintf(os.Stderr, "HARNESS: case %d made no progress for 15 minutes while the process got almost no CPU (saturated machine); inconclusive\n", curIdx.Load())
			os.Exit(2)
		}
	}
}

func summarize(o *props.Obs, withDump bool) proto.ObsSummary {
	s := proto.ObsSummary{Sched: o.Sched, Tape: o.Res.Tape, LogHash: o.Res.LogHash, Steps: o.Res.Steps}
	if withDump {
		s.Dump = o.Dump
		if len(s.Dump) > 4000 {
			s.Dump = s.Dump[:4000] + "…"
		}
		if len(o.PosAtReturn) > 0 {
			s.Dump += fmt.Sprintf("\npos-at-return=%v pos-after-drain=%d", o.PosAtReturn, o.PosAfterDrain)
		}
	}
	for _, v := range o.Res.Violations {
		s.Violations = append(s.Violations, v.Class+": "+v.Detail)
	}
	for _, e := range o.Res.Log {
		s.Log = append(s.Log, e.String())
	}
	return s
}

// dfsRuns walks the complete schedule space of a case depth-first: every run is replayed from a
// tape prefix; the widths recorded at each decision tell which alternatives are still unexplored.
func dfsRuns(t *testing.T, p props.Property, c *props.Case, max int, keepLog bool) (obs []*props.Obs, complete bool) {
	tape := []uint32{}
	for len(obs) < max {
		o := p.Run(t, c, props.Sched{UseTape: true, Tape: tape, Policy: "dfs"}, keepLog)
		progress.Add(1)
		obs = append(obs, o)
		actual := append([]uint32{}, o.Res.Tape...)
		w := o.Res.Widths
		i := len(actual) - 1
		if len(w) < len(actual) {
			i = len(w) - 1
		}
		for ; i >= 0; i-- {
			if int(actual[i])+1 < w[i] {
				break
			}
		}
		if i < 0 {
			return obs, true
		}
		tape = append(actual[:i:i], actual[i]+1)
	}
	return obs, false
}

func runCase(t *testing.T, p props.Property, c *props.Case, scheds []props.Sched, keepLog bool) ([]*props.Obs, []props.Finding) {
	if c.DFS > 0 && (len(scheds) == 0 || !scheds[0].UseTape) {
		obs, complete := dfsRuns(t, p, c, c.DFS, keepLog)
		if len(obs) > 0 {
			if obs[0].Res.Probes == nil {
				obs[0].Res.Probes = map[string]int{}
			}
			if complete {
				obs[0].Res.Probes["dfs-schedule-space-walked-completely"]++
			} else {
				obs[0].Res.Probes["dfs-capped"]++
			}
		}
		return obs, p.Judge(c, obs)
	}
	obs := make([]*props.Obs, 0, len(scheds))
	for _, s := range scheds {
		o := p.Run(t, c, s, keepLog)
		progress.Add(1)
		obs = append(obs, o)
	}
	return obs, p.Judge(c, obs)
}

func explore(t *testing.T, job *proto.Job, out *bufio.Writer) {
	p := props.Lookup(job.Prop)
	if p == nil {
		fmt.Fprintln(os.Stderr, "HARNESS: unknown property", job.Prop)
		os.Exit(2)
	}
	start := time.Now()
	begin := start
	st := proto.Stats{Probes: map[string]int{}, Faults: map[string]int{}, Policies: map[string]int{}, Exhaustive: map[string]int{}}
	caseSet := map[uint64]struct{}{}
	ntSet := map[uint64]struct{}{}
	ilSet := map[uint64]struct{}{}
	outSet := map[uint64]struct{}{}
	N := p.NumCases(job.Tier)
	enc := json.NewEncoder(out)
	complete := true
	part := 0
	// flush emits the statistics gathered since the last flush (so that a worker
	// death loses at most a few hundred cases of accounting) and resets them.
	flush := func(final, complete bool) {
		st.Complete = final && complete
		st.Final = final
		st.WallS = time.Since(start).Seconds()
		st.Nontrivial = len(ntSet)
		if job.OutDir != "" {
			tag := fmt.Sprintf("%d.%d.%d", job.Shard, job.Start, part)
			writeSet(filepath.Join(job.OutDir, "cases."+tag), caseSet)
			writeSet(filepath.Join(job.OutDir, "nontrivial."+tag), ntSet)
			writeSet(filepath.Join(job.OutDir, "interleavings."+tag), ilSet)
			writeSet(filepath.Join(job.OutDir, "outcomes."+tag), outSet)
		}
		part++
		if final {
			out.WriteString("S ")
		} else {
			out.WriteString("P ")
		}
		enc.Encode(&st)
		out.Flush()
		st = proto.Stats{Probes: map[string]int{}, Faults: map[string]int{}, Policies: map[string]int{}, Exhaustive: map[string]int{}}
		caseSet = map[uint64]struct{}{}
		ntSet = map[uint64]struct{}{}
		ilSet = map[uint64]struct{}{}
		outSet = map[uint64]struct{}{}
		start = time.Now()
	}
	for idx := job.Shard; idx < N; idx += job.NShards {
		if idx < job.Start {
			continue
		}
		if job.MaxSec > 0 && time.Since(begin) > time.Duration(job.MaxSec)*time.Second {
			complete = false
			break
		}
		c, ok := p.Gen(job.Seed, job.Tier, idx)
		if !ok {
			continue
		}
		curIdx.Store(int64(idx))
		fmt.Fprintf(out, "B %d\n", idx)
		out.Flush()
		scheds := p.Plan(job.Seed, job.Tier, idx, c)
		obs, findings := runCase(t, p, c, scheds, false)
		st.Cases++
		st.LastIdx = idx
		if c.Note != "" {
			st.Exhaustive[c.Note]++
		}
		key := gosim.MixStr(0, c.Key())
		caseSet[key] = struct{}{}
		nt := p.Nontrivial(c, obs)
		if nt {
			ntSet[key] = struct{}{}
		}
		for _, o := range obs {
			if o.SubRuns > 0 {
				st.Runs += o.SubRuns
			} else {
				st.Runs++
			}
			st.Steps += int64(o.Res.Steps)
			st.IOOps += int64(o.Res.IOOps)
			ilSet[gosim.Mix(key, o.Res.ILHash)] = struct{}{}
			outSet[gosim.MixStr(key, o.Dump)] = struct{}{}
			for k, v := range o.Res.Probes {
				st.Probes[k] += v
			}
			for k, v := range o.Faults {
				st.Faults[k] += v
			}
			st.Policies[o.Sched.Policy]++
			if o.Res.BubbleErr != "" {
				st.Probes["bubble-ended-with-blocked-goroutines"]++
			}
		}
		if len(st.Samples) < 6 && (nt || st.Cases <= 2) && (st.Cases%7 == 1 || len(st.Samples) < 2) {
			sm := proto.Sample{Idx: idx, Case: c, Outcome: shorten(obs[0].Dump, 300)}
			for i, o := range obs {
				if i < 3 {
					sm.Tapes = append(sm.Tapes, o.Res.Tape)
				}
			}
			st.Samples = append(st.Samples, sm)
		}
		for _, f := range findings {
			v := proto.Violation{Idx: idx, Case: c, Finding: f, GenTape: c.GenTape, Lane: job.Lane}
			if f.Narrow != nil {
				v.Case, v.GenTape = f.Narrow, f.Narrow.GenTape
				v.Finding.Narrow = nil
			}
			for _, i := range f.Obs {
				if i < len(obs) {
					v.Obs = append(v.Obs, summarize(obs[i], true))
				}
			}
			out.WriteString("V ")
			enc.Encode(&v)
		}
		fmt.Fprintf(out, "E %d\n", idx)
		if st.Cases >= 400 {
			flush(false, false)
		}
	}
	flush(true, complete)
}

func shorten(s string, n int) string {
	if len(s) > n {
		return s[:n] + "…"
	}
	return s
}

func writeSet(path string, set map[uint64]struct{}) {
	keys := make([]uint64, 0, len(set))
	for k := range set {
		keys = append(keys, k)
	}
	sort.Slice(keys, func(i, j int) bool { return keys[i] < keys[j] })
	buf := make([]byte, 8*len(keys))
	for i, k := range keys {
		binary.LittleEndian.PutUint64(buf[8*i:], k)
	}
	os.WriteFile(path, buf, 0o644)
}

// serve answers judge/describe requests, one JSON document per line.
func serve(t *testing.T, out *bufio.Writer) {
	in := bufio.NewReaderSize(os.Stdin, 1<<20)
	enc := json.NewEncoder(out)
	for {
		line, err := in.ReadBytes('\n')
		if len(line) > 1 {
			var rq proto.Request
			var rs proto.Response
			if e := json.Unmarshal(line, &rq); e != nil {
				rs.Err = e.Error()
			} else {
				rs = handle(t, &rq)
			}
			out.WriteString("R ")
			enc.Encode(&rs)
			out.Flush()
		}
		if err != nil {
			return
		}
	}
}

func handle(t *testing.T, rq *proto.Request) (rs proto.Response) {
	p := props.Lookup(rq.Prop)
	if p == nil {
		rs.Err = "unknown property " + rq.Prop
		return
	}
	c := rq.Case
	if c == nil && rq.GenTape == nil {
		var ok bool
		c, ok = p.Gen(rq.Seed, rq.Tier, rq.Idx)
		if !ok {
			rs.Err = "index skipped"
			return
		}
	}
	if rq.GenTape != nil {
		rg, ok := p.(props.Regenerator)
		if !ok {
			rs.Err = "property cannot regenerate from a tape"
			return
		}
		c = rg.Regen(rq.Tier, c, rq.GenTape)
	}
	if c == nil {
		rs.Err = "no case"
		return
	}
	rs.Case = c
	rs.OK = true
	if rq.Op == "describe" {
		return
	}
	scheds := rq.Scheds
	if len(scheds) == 0 {
		scheds = p.Plan(rq.Seed, rq.Tier, rq.Idx, c)
	}
	curIdx.Store(int64(rq.Idx))
	obs, findings := runCase(t, p, c, scheds, rq.KeepLog)
	rs.Findings = findings
	for _, o := range obs {
		rs.Obs = append(rs.Obs, summarize(o, true))
	}
	return
}
