package gen

import (
	"sort"
	"strings"
)

// Alphabet is the shell's significant token alphabet used for the exhaustive
// token-string enumeration (C01) and for mutations.
var Alphabet = []string{
	"a", "=", "1", " ", "\n", ";", "&", "|", "(", ")", "<", ">", "-", "{", "}", "!", "#", "$", "`", "'", "\"", "\\",
	"if", "then", "elif", "else", "fi", "for", "in", "do", "done", "case", "esac", "while", "until",
	"<<", "E", "\t",
}

// TokenString returns the idx-th string of exactly n tokens (base-len(Alphabet) digits of idx).
func TokenString(n, idx int) string {
	var b strings.Builder
	toks := make([]string, n)
	for i := n - 1; i >= 0; i-- {
		toks[i] = Alphabet[idx%len(Alphabet)]
		idx /= len(Alphabet)
	}
	for i, t := range toks {
		// keep reserved words apart so that they stay tokens
		if i > 0 && isWordTok(t) && isWordTok(toks[i-1]) {
			b.WriteByte(' ')
		}
		b.WriteString(t)
	}
	return b.String()
}

func isWordTok(t string) bool {
	c := t[0]
	return len(t) > 1 && c >= 'a' && c <= 'z'
}

func NumTokenStrings(n int) int {
	r := 1
	for i := 0; i < n; i++ {
		r *= len(Alphabet)
	}
	return r
}

// Curated inputs named in the property texts and found during design.
var Curated = []string{
	"<<\\", "cat <<E\n\nbody\nE\n", "\\", "a \\", "a | | b", "a | | $(", "a | | \"x", "a | | `", "a; ; b", "$(", "$((", "${", "${x", "${x:", "\"", "'", "`",
	"a <<E", "a <<E\n", "a <<E\nb", "a <<-E\n\tb\n\tE\n", "a <<'E'\n$x\nE\n", "(((", ")))", "((a", "((a))", "( (a); b )", "{ (a) }",
	"if a # c\nthen b; fi\n", "a # c\nb\n", "for", "for x", "for x in", "for 1 in a; do b; done", "case", "case x", "case x in", "case x in a", "case x in a)", "case x in a) b", "case x in a) b;;",
	"f()", "f() {", "break() { a; }", "a && ", "a || \n", "a |\n", "! ", "! !", "{", "}", "{ a", "{ a; }", "{ a; } }", "fi", "done", "esac", "then", "do", "in",
	"a <", "a >", "a >>", "a <&", "a >&", "a <>", "a >|", "2>", "2>&1", "a 2>&1 3<&-", "a;;", ";;", "&&", "||", "|", "&", ";",
	"a $(b `c` d) e", "`a $(b) c`", "`a `b` c`", "$(a # c\n)", "$(a <<E\nb\nE\n)", "$(a <<E\nb\nE)", "a <<E $(b\nc)\nd\nE\n", "\"$(\"", "\"${x:-\"}\"", "${x:-${y:-${z}}}",
	"$(( 1 + (2) ))", "$((a)", "$( (a) )", "$((a) )", "a\\\nb", "a \\\n b", "'a\nb'", "\"a\\\nb\"",
	"alias_a", "x=1 y=2", "x= y", "x=$(a) b", "1>a", "a>b>c", "<a", "<<E\nE\n", "<<E <<F\nE\nF\n", "a <<E <<E\n1\nE\n2\nE\n",
	"a <<\"E\nF\"\n", "a <<$x\n$x\n", "a <<`b`\n`b`\n", "\x00", "a\x00b", "\xff\xfe", "é", "a\rb", "a\r\n",
	"while a; do b; done <<E\nx\nE\n", "if a; then b <<E\nx\nE\nfi\n", "a | b <<E | c\nx\nE\n", "a <<E && b <<F\n1\nE\n2\nF\n",
	"echo ${x}2>f", "\"$x\"2>f", "''2>f", "$(x)2>&1", "`x`0<&3", "$((1+1))2>>f", ": \\>2>f", "${x}2<<E\nb\nE\n", "a'b'2>f", "a2>f", "2>f", "\\22>f",
	"cat <<''\nbody\n\n", "cat <<\"\"\n$x\n\n", "<<''\nx\n", "cat <<''\n$x line\n\n", "cat <<E\n$(())\nE\n", "cat <<$(())\nx\n$(())\n", "cat <<E\n$((  ))\n$((\n))\nE\n", "echo $(()) $((  ))\n", "(( ))\n",
	"for x; ;", "for x in a\n&", "case x ;", "case x\n\n)", "$é", "\"5$€\"", "$日本", "$\xff", "${é}", "é$",
	"cat <<-E\n\t\t\n\tE\n", "cat <<-E\n\t", "cat <<-E\n\t\t\nE", "cat <<-E\n\t\n", "cat <<-'E'\n\t\t\t", "cat <<E\n\t\t\nE\n",
	"${#}", "${##}", "${#?}", "${#-}", "${#x}", "${#:-a}", "${x%%}", "${x%%%}", "${x:}", "${x:a}", "${}", "${1a}", "$1a", "$10", "${10}",
}

// Mutate applies one random token/rune level mutation.
func Mutate(s *Source, text string) string {
	rs := []rune(text)
	if len(rs) == 0 {
		return Alphabet[s.Intn(len(Alphabet))]
	}
	switch s.Intn(8) {
	case 0: // truncate
		return string(rs[:s.Intn(len(rs)+1)])
	case 1: // delete a run
		i := s.Intn(len(rs))
		j := i + 1 + s.Intn(3)
		if j > len(rs) {
			j = len(rs)
		}
		return string(rs[:i]) + string(rs[j:])
	case 2: // insert a token
		i := s.Intn(len(rs) + 1)
		return string(rs[:i]) + Alphabet[s.Intn(len(Alphabet))] + string(rs[i:])
	case 3: // duplicate a run
		i := s.Intn(len(rs))
		j := i + 1 + s.Intn(6)
		if j > len(rs) {
			j = len(rs)
		}
		return string(rs[:j]) + string(rs[i:j]) + string(rs[j:])
	case 4: // swap adjacent runes
		if len(rs) < 2 {
			return text
		}
		i := s.Intn(len(rs) - 1)
		rs[i], rs[i+1] = rs[i+1], rs[i]
		return string(rs)
	case 5: // stray closer / opener
		i := s.Intn(len(rs) + 1)
		return string(rs[:i]) + s.Pick([]string{")", "}", " fi ", " done ", " esac ", ";;", "((", "))", "$(", "${", "`", "\"", "'", " then ", " do ", "<<", "<<-", "\\"}) + string(rs[i:])
	case 6: // replace one rune
		i := s.Intn(len(rs))
		return string(rs[:i]) + Alphabet[s.Intn(len(Alphabet))] + string(rs[i+1:])
	default: // drop a line
		lines := strings.SplitAfter(text, "\n")
		if len(lines) < 2 {
			return string(rs[:len(rs)/2])
		}
		i := s.Intn(len(lines))
		return strings.Join(append(append([]string{}, lines[:i]...), lines[i+1:]...), "")
	}
}

// AliasTable generates an alias table (sorted pairs): chains, cycles,
// self-reference, trailing blanks, values with operators / reserved words /
// unbalanced openers.
func AliasTable(s *Source) [][2]string {
	names := []string{"a", "b", "cmd", "echo", "x1", "if", "ll", "cat", "_f", "ls"}
	values := []string{
		"a", "b", "b ", "a ", "cmd x", "echo hi ", "ll", "ll -l", "a; b", "a | b", "a && ", "if a; then", "{ a;", "(", "$(", "\"", "'", "x=1", "x=1 ",
		"> f", "<<E", "b\n", "a\nb", "", " ", "for i in", "case x in", "! ", "cat <<E\nbody\nE\n", "`", "a #c", "#", "fi", "done", "}", "a \\",
	}
	if s.Chance(1, 6) {
		// cooperating aliases: an outer value that begins with another alias (consumed completely) and later
		// opens a substitution or a quotation; trailing-blank chains into a value with an operator
		tables := [][][2]string{
			{{"a", "b $(ls | wc -l"}, {"b", "echo"}},
			{{"a", "b $(ls | wc -l)"}, {"b", "echo"}},
			{{"cmd", "ll `x"}, {"ll", "ls"}},
			{{"cmd", "ll `x y` z"}, {"ll", "ls -l"}},
			{{"a", "b $((1 +"}, {"b", "x1"}, {"x1", "x1 "}},
			{{"a", "b $((1 + 2)) c"}, {"b", "b"}},
			{{"a", "b \"$(c"}, {"b", "echo "}, {"echo", "cat"}},
			{{"a", "b "}, {"b", "a $(b"}, {"cat", "a"}},
			{{"if", "b "}, {"b", "if a; then $(x"}},
			{{"a", "b ${x:-$(c"}, {"b", "ll "}, {"ll", "ls"}},
		}
		return tables[s.Intn(len(tables))]
	}
	n := 1 + s.Intn(5)
	m := map[string]string{}
	for i := 0; i < n; i++ {
		m[names[s.Intn(len(names))]] = values[s.Intn(len(values))]
	}
	var ks []string
	for k := range m {
		ks = append(ks, k)
	}
	sort.Strings(ks)
	var out [][2]string
	for _, k := range ks {
		out = append(out, [2]string{k, m[k]})
	}
	return out
}

func init() {
	// deep nesting and very long tokens (C01: recursion depth, goroutine nesting, bufio boundaries)
	rep := strings.Repeat
	Curated = append(Curated,
		rep("(", 300), rep("(", 200)+"a"+rep(")", 200), rep("$(", 150), rep("$(", 120)+"a"+rep(")", 120), rep("{ ", 300), rep("{ ", 200)+"a;"+rep(" }", 200),
		rep("if ", 200), rep("if a; then ", 150)+"b"+rep("; fi", 150), rep("\"$(", 80), rep("\"$(", 60)+"a"+rep(")\"", 60), rep("`", 101), rep("${x:-", 200), rep("${x:-", 150)+"y"+rep("}", 150),
		rep("a | ", 2000)+"b", rep("a && ", 2000)+"b", rep("! ", 50)+"a", rep("<<E ", 100)+"\n"+rep("E\n", 100), "echo "+rep("w", 70000), "echo "+rep("é", 5000), rep("a\n", 3),
		"case x in "+rep("a) b;; ", 500)+"esac", rep("f() ", 100)+"{ a; }", rep("((", 100), "$(("+rep("(", 200)+"1"+rep(")", 200)+"))", rep("x=1 ", 1000)+"cmd",
		rep("\\\n", 500)+"a", "a "+rep("# c\n", 3), rep("'", 1001), rep("\"", 1001),
		// nesting deeper than 1000, also inside words the lexer renders through the printer (here-document delimiter / body)
		"cat <<E\n$("+rep("(", 1100)+"a"+rep(")", 1100)+")\nE\n", "cat <<E\n$("+rep("{ ", 1100)+"a;"+rep(" }", 1100)+")\nE\n",
		"cat <<E\n"+rep("$(", 400)+"a"+rep(")", 400)+"\nE\n", "cat <<\"$("+rep("(", 1100)+"a"+rep(")", 1100)+")\"\nx\n", rep("(", 1100)+"a"+rep(")", 1100), rep("{ ", 1100)+"a;"+rep(" }", 1100),
		rep("if a; then ", 1100)+"b"+rep("; fi", 1100), rep("$(", 1100)+"a"+rep(")", 1100),
		// "((" is the arithmetic command: nested subshells need blanks
		rep("( ", 1100)+"a"+rep(" )", 1100), "cat <<E\n$( "+rep("( ", 1100)+"a"+rep(" )", 1100)+" )\nE\n", "cat <<\"$( "+rep("( ", 1100)+"a"+rep(" )", 1100)+" )\"\nx\n",
		"cat <<E\n`"+rep("( ", 1100)+"a"+rep(" )", 1100)+"`\nE\n", "cat <<E\n$( "+rep("{ ", 600)+rep("( ", 600)+"a"+rep(" )", 600)+rep("; }", 600)+" )\nE\n",
	)
}

// BoundaryTemplates: inputs whose rendering/reading crosses the 4096-byte buffers used by bufio at a
// position controlled by the padding length n (C01 sweeps n around 4096 and 8192).
func BoundarySweep(t, n int) string {
	pad := strings.Repeat("A", n)
	switch t {
	case 0:
		return "cat <<E\n$(\necho " + pad + "\nb\n)\nE\n" // multi-line substitution at column 1 of a body line
	case 1:
		return "cat <<" + pad + "\nx\n" + pad + "\n" // giant delimiter
	case 2:
		return "cat <<E\n" + pad + "$(a\nb) $((1 +\n2))\nE\n"
	case 3:
		return "echo " + pad + " $(a\nb) \"" + pad + "\"\n"
	case 4:
		return "cat <<-E\n\t$(\n{ echo " + pad + "\n}\n)\n\tE\n"
	default:
		return "a # " + pad + "\n" + pad + " é\n"
	}
}

const BoundaryTemplates = 6
