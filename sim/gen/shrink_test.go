package gen

import (
	"fmt"
	"os"
	"sort"
	"strings"
	"testing"

	"github.com/hattya/go.sh/parser"
)

func errClass(err error) string {
	if err == nil {
		return ""
	}
	k := err.Error()
	if i := strings.Index(k, ": "); i >= 0 {
		k = k[i+2:]
	}
	return k
}

func genFromTape(tape []uint32, o Opts) (string, []uint32) {
	src := FromTape(tape)
	g := NewG(src, o)
	it := g.CompleteCommand(false)
	return it.Text, src.Rec
}

func shrinkTape(tape []uint32, o Opts, pred0 func(string) bool) string {
	best, _ := genFromTape(tape, o)
	budget := 1500
	pred := func(s string) bool {
		if budget <= 0 {
			return false
		}
		budget--
		return pred0(s)
	}
	// delete chunks
	for size := len(tape) / 2; size >= 1; size /= 2 {
		for i := 0; i+size <= len(tape); {
			cand := append(append([]uint32{}, tape[:i]...), tape[i+size:]...)
			if txt, rec := genFromTape(cand, o); pred(txt) {
				tape, best = rec, txt
			} else {
				i += size
			}
		}
	}
	for i := range tape {
		if tape[i] != 0 {
			old := tape[i]
			tape[i] = 0
			if txt, rec := genFromTape(tape, o); pred(txt) {
				best = txt
				if len(rec) < len(tape) {
					tape = rec
				}
			} else {
				tape[i] = old
			}
		}
		if i >= len(tape) {
			break
		}
	}
	return best
}

func TestGenShrink(t *testing.T) {
	o := FullOpts()
	if os.Getenv("NOCOMMENT") != "" {
		o.Comments, o.InnerComments = false, false
	}
	type ex struct {
		n    int
		text string
	}
	classes := map[string]*ex{}
	N := 8000
	for seed := 0; seed < N; seed++ {
		src := FromSeed(uint64(seed))
		g := NewG(src, o)
		it := g.CompleteCommand(false)
		_, _, err := parser.ParseCommands(nil, "g", it.Text)
		if err == nil {
			continue
		}
		k := errClass(err)
		e := classes[k]
		if e == nil {
			e = &ex{}
			classes[k] = e
		}
		e.n++
		if e.n <= 2 {
			small := shrinkTape(src.Rec, o, func(s string) bool {
				_, _, err := parser.ParseCommands(nil, "g", s)
				return errClass(err) == k
			})
			if e.text == "" || len(small) < len(e.text) {
				e.text = small
			}
		}
	}
	var ks []string
	for k := range classes {
		ks = append(ks, k)
	}
	sort.Strings(ks)
	for _, k := range ks {
		fmt.Printf("%5d %s\n      %q\n", classes[k].n, k, classes[k].text)
	}
}
