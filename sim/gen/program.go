package gen

import (
	"strings"
	"unicode"
)

// Opts selects the constructs a generated program may use.
type Opts struct {
	MaxDepth        int
	Heredocs        bool // here-documents at redirection sites
	CmdSubst        bool // $( ) and backquotes
	Comments        bool // trailing comments after commands
	InnerComments   bool // comments inside compound commands
	MultiLine       bool // compound commands spread over lines
	Continuation    bool // backslash-newline between tokens
	QuotedNL        bool // newlines inside quotes
	ArithCmd        bool // (( )) command (go.sh extension)
	FuncDef         bool
	MultiByte       bool
	BigWords        bool // occasionally very long words (to cross buffer boundaries)
	HeredocBodyPool int  // 0: all bodies; 1: only plain bodies
	HDBias          bool // prefer here-documents at redirection sites and add redirections more often
	HDMultiLine     bool // here-document bodies may contain expansions that span lines ($(( )) and $( ) with newlines)
	NLInSubst       bool // newlines inside $( ) although a here-document of the enclosing line is still pending
}

func FullOpts() Opts {
	return Opts{MaxDepth: 4, Heredocs: true, CmdSubst: true, Comments: true, InnerComments: true, MultiLine: true,
		Continuation: true, QuotedNL: true, ArithCmd: true, FuncDef: true, MultiByte: true, NLInSubst: true}
}

// HD is a here-document the generator wrote, in source order of the operators.
type HD struct {
	Op     string
	Delim  string // after quote removal
	Quoted bool
	Body   string // exactly as written (including the tabs of <<- bodies), without the delimiter line
}

// Item is one "complete command" of a stream: a command line with everything
// that belongs to it (continuation lines, here-document bodies), or a blank line.
type Item struct {
	Text  string
	Blank bool
	HDs   []HD
}

type pendingHD struct {
	delimLine string // the delimiter line as written (with leading tabs for <<-)
	body      string
}

type G struct {
	S           *Source
	O           Opts
	b           strings.Builder
	hds         []HD
	pend        [][]pendingHD // stack: one pending list per command-substitution level
	depth       int
	inBackquote bool
	inCmdSubst  int
	inSubshell  int
	noNewline   int // >0: newlines are not allowed here (would mis-place a pending here-doc)
	names       int
}

func NewG(s *Source, o Opts) *G {
	if o.MaxDepth == 0 {
		o.MaxDepth = 3
	}
	return &G{S: s, O: o, pend: [][]pendingHD{nil}}
}

var cmdNames = []string{"a", "b", "cmd", "echo", "cat", "x1", "_f", "ls", "true", "grep"}
var argLits = []string{"a", "b", "c", "foo", "bar", "-x", "--opt=1", "1", "42", "f.txt", "/dev/null", "a=b", "x-y", "%s", "+", "@", "if", "done", "in", "}", "{", "!", "esac", "a:b", ",", "~", "~/x", "é", "日本"}
var varNames = []string{"x", "y", "HOME", "_v1", "IFS", "PATH"}
var specialParams = []string{"@", "*", "#", "?", "-", "$", "!", "0", "1", "9"}
var paramOps = []string{":-", "-", ":=", "=", ":?", "?", ":+", "+", "%", "%%", "#", "##"}

func (g *G) blank() {
	switch g.S.Intn(8) {
	case 1:
		g.b.WriteString("  ")
	case 2:
		g.b.WriteString("\t")
	case 3:
		if g.O.Continuation && g.noNewline == 0 {
			g.b.WriteString(" \\\n ")
		} else {
			g.b.WriteString(" ")
		}
	default:
		g.b.WriteString(" ")
	}
}

func (g *G) optBlank() {
	if g.S.Chance(1, 4) {
		g.b.WriteString(" ")
	}
}

// newline writes a newline token and the bodies of the here-documents pending at this level.
func (g *G) newline() {
	g.b.WriteString("\n")
	g.flush()
}

func (g *G) flush() {
	top := len(g.pend) - 1
	for _, p := range g.pend[top] {
		g.b.WriteString(p.body)
		g.b.WriteString(p.delimLine)
		g.b.WriteString("\n")
	}
	g.pend[top] = nil
}

func swapCase(s string) string {
	return strings.Map(func(r rune) rune {
		if unicode.IsUpper(r) {
			return unicode.ToLower(r)
		}
		return unicode.ToUpper(r)
	}, s)
}

// parenUpset: go.sh's parenthesis counter is off after a case item inside a subshell earlier in the same
// command (a grammar deviation outside the claimed properties): "((" is not recognised any more then.
func (g *G) parenUpset() bool {
	t := g.b.String()
	return strings.Contains(t, "(") && strings.Contains(t, "case")
}

func (g *G) anyPending() bool {
	for _, p := range g.pend {
		if len(p) != 0 {
			return true
		}
	}
	return false
}

func (g *G) pending() bool { return len(g.pend[len(g.pend)-1]) != 0 }

// canNewline: a newline token may be written here.
func (g *G) canNewline() bool {
	if g.noNewline > 0 {
		return false
	}
	// inside a command substitution: the bodies of the enclosing line's here-documents come after that line's
	// own newline (a substitution is scanned as a unit); allowed only where the option says so
	if !g.O.NLInSubst {
		for i := 0; i < len(g.pend)-1; i++ {
			if len(g.pend[i]) != 0 {
				return false
			}
		}
	}
	return true
}

func (g *G) comment() {
	g.b.WriteString("#")
	g.b.WriteString(g.S.Pick([]string{"", " c", " comment with ; | & ( ) tokens", "!x", " $(", " \"", " '", " <<E", " é", " was C:\\tmp\\", "\\", " a \\\\"}))
}

// sep writes a command separator inside a compound list; returns after the separator.
// final: the separator precedes a closing reserved word (so one is required).
func (g *G) sep() {
	if g.O.MultiLine && g.canNewline() && g.S.Chance(1, 2) {
		g.optBlank()
		if g.O.InnerComments && g.S.Chance(1, 8) {
			g.b.WriteString(" ")
			g.comment()
		}
		g.newline()
		for g.S.Chance(1, 10) {
			g.newline()
		}
		if g.S.Chance(1, 3) {
			g.b.WriteString(strings.Repeat(" ", g.S.Range(1, 4)))
		}
		return
	}
	if g.pending() && g.canNewline() {
		// a pending here-document must get its body before more lines pile up: prefer newline
		g.newline()
		return
	}
	g.optBlank()
	if g.S.Chance(1, 6) {
		g.b.WriteString("&")
	} else {
		g.b.WriteString(";")
	}
	g.b.WriteString(" ")
}

// closeSep writes the separator required before a closing reserved word (fi, done, }, then, do, ...).
func (g *G) closeSep() {
	if g.O.MultiLine && g.canNewline() && (g.pending() && !g.S.Chance(1, 4) || !g.pending() && g.S.Chance(1, 2)) {
		g.optBlank()
		g.newline()
		for g.S.Chance(1, 8) {
			// further empty or comment-only lines before the closing word
			if g.O.InnerComments && g.S.Chance(1, 2) {
				g.b.WriteString(g.S.Pick([]string{"", " ", "\t"}))
				g.comment()
			}
			g.newline()
		}
		if g.S.Chance(1, 3) {
			g.b.WriteString(strings.Repeat(" ", g.S.Range(1, 4)))
		}
		return
	}
	// (also with a here-document pending from earlier on the line: "cat <<E; for i in 1 2; do": the body
	// starts after the next newline token, wherever that is)
	g.optBlank()
	g.b.WriteString("; ")
}

// closeSepList closes a compound list in front of then / do / fi / done / }: like closeSep, or with
// "&" (the last and-or list is asynchronous: "while a & do", "if a &\nthen").
func (g *G) closeSepList() {
	if g.S.Chance(1, 7) && (!g.pending() || g.O.MultiLine && g.canNewline()) {
		g.optBlank()
		g.b.WriteString("&")
		if g.O.MultiLine && g.canNewline() && (g.pending() || g.S.Chance(1, 2)) {
			g.optBlank()
			g.newline()
			return
		}
		g.b.WriteString(" ")
		return
	}
	g.closeSep()
}

func (g *G) name() string { return g.S.Pick(varNames) }

func (g *G) litChars(pool string, lo, hi int) string {
	n := g.S.Range(lo, hi)
	var b strings.Builder
	rs := []rune(pool)
	for i := 0; i < n; i++ {
		b.WriteRune(rs[g.S.Intn(len(rs))])
	}
	return b.String()
}

// word writes one word (never empty, never a reserved word unless arg=true allows it).
func (g *G) word(arg bool) {
	parts := 1
	if g.S.Chance(1, 3) {
		parts = g.S.Range(2, 4)
	}
	for i := 0; i < parts; i++ {
		g.wordPart(arg && parts == 1, i == 0)
	}
	if g.S.Chance(1, 16) {
		g.b.WriteString("$") // a lone dollar sign at the very end of a word is an ordinary character
	}
}

func (g *G) wordPart(allowReserved, first bool) {
	k := g.S.Intn(16)
	switch {
	case k <= 6:
		if allowReserved {
			w := g.S.Pick(argLits)
			if !g.O.MultiByte && !isASCII(w) {
				w = "z"
			}
			g.b.WriteString(w)
		} else {
			if g.O.BigWords && g.S.Chance(1, 40) {
				g.b.WriteString(strings.Repeat("w", g.S.Range(500, 5000)))
			}
			g.b.WriteString(g.litChars("abcxyz019_./-:,%+@", 1, 5))
		}
	case k == 7:
		// single quotes
		g.b.WriteString("'")
		g.b.WriteString(g.quotedText(false))
		g.b.WriteString("'")
	case k == 8:
		// backslash escape
		g.b.WriteString("\\")
		g.b.WriteString(g.S.Pick([]string{"a", " ", "$", "\\", "\"", "'", ";", "|", "&", "(", ")", "<", ">", "#", "`", "*", "é"}))
	case k == 9 || k == 10:
		g.dquote()
	case k == 11 || k == 12:
		g.param(true)
	case k == 13:
		if g.O.CmdSubst && g.depth < g.O.MaxDepth {
			g.cmdSubst()
		} else {
			g.b.WriteString("v")
		}
	case k == 14:
		g.arithExp()
	default:
		g.b.WriteString(g.litChars("abc", 1, 3))
	}
}

func isASCII(s string) bool {
	for i := 0; i < len(s); i++ {
		if s[i] >= 0x80 {
			return false
		}
	}
	return true
}

func (g *G) quotedText(dq bool) string {
	pool := []string{"", "a", "a b", "x;y", "|&()<>", "#c", "$x", "`", "\\", "*?[", "~", "é", "if", "a  b"}
	if !dq {
		pool = append(pool, "\"", "$(a)", "${x")
	}
	s := g.S.Pick(pool)
	if g.O.QuotedNL && g.S.Chance(1, 12) {
		s += "\n" + g.S.Pick([]string{"", "z", "E", " "})
	}
	if !g.O.MultiByte && !isASCII(s) {
		s = "q"
	}
	return s
}

func (g *G) dquote() {
	g.b.WriteString("\"")
	n := g.S.Intn(4)
	for i := 0; i < n; i++ {
		switch g.S.Intn(8) {
		case 0, 1, 2:
			g.b.WriteString(g.S.Pick([]string{"a", "a b", " ", "x;y", "'", "#", "*", "|&", "(", ")", "~", "<<"}))
		case 3:
			g.b.WriteString("\\")
			g.b.WriteString(g.S.Pick([]string{"$", "\"", "\\", "`", "a", " "}))
		case 4, 5:
			g.param(false)
		case 6:
			if g.O.CmdSubst && g.depth < g.O.MaxDepth {
				g.cmdSubst()
			} else {
				g.b.WriteString("s")
			}
		case 7:
			if g.O.QuotedNL && g.S.Chance(1, 4) {
				g.b.WriteString("\n")
			} else {
				g.arithExp()
			}
		}
	}
	if g.S.Chance(1, 12) {
		g.b.WriteString("$") // a dollar sign right before the closing quote
	}
	g.b.WriteString("\"")
}

func (g *G) param(allowWordOps bool) {
	switch g.S.Intn(6) {
	case 0, 1:
		g.b.WriteString("$" + g.name())
	case 2:
		g.b.WriteString("$" + g.S.Pick(specialParams))
	case 3:
		g.b.WriteString("${" + g.name() + "}")
	case 4:
		g.b.WriteString("${#" + g.S.Pick([]string{"x", "y", "@", "*", "#", "?", "-", "1"}) + "}")
	default:
		nm := g.name()
		if g.S.Chance(1, 5) {
			nm = g.S.Pick([]string{"@", "*", "#", "?", "1", "10"})
		}
		g.b.WriteString("${" + nm + g.S.Pick(paramOps))
		// operator word: literals, quotes, nested parameter expansions (no unbalanced braces)
		n := g.S.Intn(3)
		for i := 0; i < n; i++ {
			switch g.S.Intn(6) {
			case 0, 1:
				g.b.WriteString(g.litChars("abc*?/.- ", 1, 4))
			case 2:
				g.b.WriteString("'" + g.S.Pick([]string{"", "a", "}", "$x", "a b"}) + "'")
			case 3:
				g.b.WriteString("\"" + g.S.Pick([]string{"", "a", "}", "a b", "$y"}) + "\"")
			case 4:
				g.b.WriteString("$" + g.name())
			case 5:
				g.b.WriteString("\\" + g.S.Pick([]string{"}", "a", "$", "\\"}))
			}
		}
		g.b.WriteString("}")
	}
}

func (g *G) arithExp() {
	g.b.WriteString("$((")
	pool := []string{"1+2", " x + 1 ", "x", "1", "x*y", "x<<2", "1 ? 2 : 3", "x=4", "$x+1", "a[", "08", "", "  "}
	if g.O.MultiByte {
		pool = append(pool, "é + 1", " \"é\" + 1 ", "日本+x", "'é' * 2")
	}
	if g.S.Chance(1, 3) {
		g.b.WriteString(g.arithCompose(true))
	} else {
		g.b.WriteString(g.S.Pick(pool))
	}
	g.b.WriteString("))")
}

// arithCompose builds an arithmetic expression from operands (numbers, names, parameter expansions in
// all forms including empty words, nested arithmetic, parentheses) with varying blanks around the operators.
func (g *G) arithCompose(hash bool) string {
	atoms := []string{"1", "23", "x", "y", "$x", "${x}", "${x-}", "${y+}", "${x:-3}", "${x-2}", "${y=}", "${x:+}", "${x?}", "$((1))", "$(( x ))", "$1", "${2}", "\"\"1", "\"\" 1", "''2", "\"1\"", "\"$x\"", "'3'"}
	if hash {
		// (not where go.sh lexes "((" as nested subshells: there parentheses and '#' mean something else)
		atoms = append(atoms, "( 1 + 2 )", "(x)", "${x#}", "${x%}", "${#x}", "${x##}", "${x%%}")
	}
	ops := []string{"+", "-", "*", "/", "%", "==", "!=", "&&", "||", "&", "|", "^", ","}
	var b strings.Builder
	b.WriteString(g.S.Pick([]string{"", " ", "  "}))
	n := g.S.Range(2, 4)
	for i := 0; i < n; i++ {
		if i > 0 {
			sp := g.S.Pick([]string{"", " ", " ", "  "})
			b.WriteString(sp + g.S.Pick(ops) + g.S.Pick([]string{"", " ", " ", "  "}))
		}
		b.WriteString(g.S.Pick(atoms))
	}
	b.WriteString(g.S.Pick([]string{"", " ", "  "}))
	return b.String()
}

// cmdSubst writes $( list ) or `list`.
func (g *G) cmdSubst() {
	g.depth++
	defer func() { g.depth-- }()
	if !g.inBackquote && g.inCmdSubst == 0 && g.O.Heredocs && g.O.MultiLine && g.canNewline() && !g.anyPending() && g.S.Chance(1, 10) {
		// backquotes around a command with here-documents: the bodies (which may hold backquotes themselves:
		// go.sh reads body lines whole) come before the closing backquote
		g.inBackquote = true
		g.inCmdSubst++
		g.pend = append(g.pend, nil)
		g.b.WriteString("`")
		g.b.WriteString(g.S.Pick(cmdNames))
		n := g.S.Range(1, 2)
		for i := 0; i < n; i++ {
			g.b.WriteString(" ")
			g.heredoc()
		}
		if g.S.Chance(1, 3) {
			g.b.WriteString(" | tr a b")
		}
		g.newline()
		g.b.WriteString("`")
		g.pend = g.pend[:len(g.pend)-1]
		g.inCmdSubst--
		g.inBackquote = false
		return
	}
	if !g.inBackquote && g.inCmdSubst == 0 && g.S.Chance(1, 4) {
		// backquotes: never nested into anything, content without backquotes, single line
		g.inBackquote = true
		g.noNewline++
		g.b.WriteString("`")
		save := g.O
		g.O.Heredocs = false
		g.O.CmdSubst = false
		g.O.Comments = false
		g.O.InnerComments = false
		g.list(1, true)
		g.O = save
		g.b.WriteString("`")
		g.noNewline--
		g.inBackquote = false
		return
	}
	if g.inBackquote {
		g.b.WriteString("v")
		return
	}
	g.inCmdSubst++
	g.pend = append(g.pend, nil)
	g.b.WriteString("$(")
	g.optBlank()
	save := g.O
	g.O.Comments = false // a comment would swallow the closing parenthesis
	g.O.InnerComments = false
	g.listNoLeadingParen()
	g.O = save
	if g.pending() {
		// bodies must come before the closing parenthesis
		g.newline()
	} else {
		g.optBlank()
	}
	g.b.WriteString(")")
	g.pend = g.pend[:len(g.pend)-1]
	g.inCmdSubst--
}

// redir writes one redirection (with leading blank).
func (g *G) redir() {
	g.blank()
	if g.S.Chance(1, 5) {
		g.b.WriteString(g.S.Pick([]string{"0", "1", "2", "3", "10"}))
	}
	if g.O.Heredocs && g.canNewlineLater() && (g.S.Chance(1, 3) || g.O.HDBias && g.S.Chance(1, 2)) {
		g.heredoc()
		return
	}
	op := g.S.Pick([]string{">", "<", ">>", ">|", "<>", ">&", "<&"})
	g.b.WriteString(op)
	g.optBlank()
	switch op {
	case ">&", "<&":
		g.b.WriteString(g.S.Pick([]string{"1", "2", "-", "3"}))
	default:
		g.word(false)
	}
}

// gluedRedir writes a redirection without a leading blank.
func (g *G) gluedRedir() {
	if g.O.Heredocs && g.canNewlineLater() && g.S.Chance(1, 4) {
		g.heredoc()
		return
	}
	op := g.S.Pick([]string{">", "<", ">>", ">|", "<>", ">&", "<&"})
	g.b.WriteString(op)
	switch op {
	case ">&", "<&":
		g.b.WriteString(g.S.Pick([]string{"1", "2", "-"}))
	default:
		g.word(false)
	}
}

// canNewlineLater: a here-document may be started here because a newline token
// can be written before the construct it sits in ends.
func (g *G) canNewlineLater() bool {
	return g.noNewline == 0 && g.canNewline() && !g.inBackquote
}

var hdDelims = []string{"E", "EOF", "END_1", "X9", "E2", "終", "ÉOF"}

func (g *G) heredoc() {
	op := "<<"
	if g.S.Chance(1, 3) {
		op = "<<-"
	}
	delim := g.S.Pick(hdDelims)
	quoted := false
	var written string
	switch g.S.Intn(10) {
	case 0, 1, 2:
		written = delim
	case 3:
		written, quoted = "'"+delim+"'", true
	case 4:
		written, quoted = "\""+delim+"\"", true
	case 5:
		written, quoted = "\\"+delim, true
	case 6:
		if len([]rune(delim)) > 1 {
			written, quoted = headRune(delim)+"'"+tailRunes(delim)+"'", true
		} else {
			written, quoted = "'"+delim+"'", true
		}
	case 9:
		// a quote character protected by another kind of quoting belongs to the delimiter
		switch g.S.Intn(3) {
		case 0:
			written, delim, quoted = "\""+delim+"'F\"", delim+"'F", true
		case 1:
			written, delim, quoted = "'"+delim+"\"b'", delim+"\"b", true
		default:
			written, delim, quoted = delim+"\\'s", delim+"'s", true
		}
	case 8:
		// empty quotes are quoting too
		written, quoted = g.S.Pick([]string{"\"\"" + delim, delim + "\"\"", delim + "''", headRune(delim) + "\"\"" + tailRunes(delim)}), true
	case 7:
		// an expansion in the delimiter word is taken literally: the delimiter is the text "E$x"
		delim += g.S.Pick([]string{"$x", "${y}", "$1"})
		written = delim
	}
	g.b.WriteString(op)
	g.optBlank()
	g.b.WriteString(written)
	body := g.hdBody(op, delim, quoted)
	delimLine := delim
	if op == "<<-" && g.S.Chance(1, 3) {
		delimLine = strings.Repeat("\t", g.S.Range(1, 2)) + delim
	}
	g.hds = append(g.hds, HD{Op: op, Delim: delim, Quoted: quoted, Body: body})
	top := len(g.pend) - 1
	g.pend[top] = append(g.pend[top], pendingHD{delimLine: delimLine, body: body})
}

func (g *G) hdBody(op, delim string, quoted bool) string {
	n := g.S.Intn(4)
	var b strings.Builder
	for i := 0; i < n; i++ {
		var line string
		pool := 24
		if g.O.HDMultiLine && !quoted {
			pool = 26
		}
		if g.S.Chance(1, 12) {
			pool = 39 // includes the rare lines 26..38 (and, with HDMultiLine only, 24/25/36)
		}
		if g.O.HeredocBodyPool == 1 {
			pool = 4
		}
		k := g.S.Intn(pool)
		if (k == 24 || k == 25 || k == 36) && !(g.O.HDMultiLine && !quoted) {
			k = 0
		}
		switch k {
		case 0:
			line = "body line"
		case 1:
			line = "x"
		case 2:
			line = delim + "x" // delimiter is a prefix of the line
		case 3:
			line = " " + delim // indented with a blank: not the delimiter
		case 4:
			line = "" // empty line (also as the very first line)
		case 5:
			if len([]rune(delim)) > 1 {
				line = tailRunes(delim) // suffix of the delimiter
			} else {
				line = delim + delim
			}
		case 6:
			if op == "<<-" {
				line = "\ttabbed line"
			} else {
				line = "\t" + delim // tab-indented delimiter is not a delimiter for <<
			}
		case 7:
			line = "v=$x and ${y}"
		case 8:
			line = "sub $(a b) end"
		case 9:
			line = "bq `a b` end"
		case 10:
			line = "esc \\$x \\` \\\\ end"
		case 11:
			line = "back\\slash \\a"
		case 12:
			line = "ar $((1+2)) é"
		case 13:
			line = "quote ' \" ; | & # ( )"
		case 14:
			line = "v ${y}" + delim // the delimiter text at the end of a line, after an expansion
		case 15:
			line = "$(a b)" + delim
		case 16:
			line = "`a b`" + delim
		case 17:
			line = "\\$" + delim
		case 18:
			line = "$1" + delim
		case 19:
			if op == "<<-" {
				line = "$x\t" + delim
			} else {
				line = "$x " + delim
			}
		case 38:
			// a line continuation right in front of text that looks like the delimiter: the joined line is no delimiter line
			if quoted {
				line = "cont \\" + "\nafter a literal backslash"
			} else {
				line = "x \\\n" + delim
			}
		case 37:
			line = "cont \\\nafter a continuation" // backslash-newline inside the body (a continuation iff the delimiter is unquoted)
		case 36:
			line = "sub $(a\n" + delim + "\nb c) end" // a line equal to the delimiter INSIDE a multi-line substitution does not end the body
		case 35:
			line = "\t\t" // tabs only
		case 34:
			line = "two at the end \\\\" // an escaped backslash, then the newline: no continuation
		case 33:
			line = "\\\\`a b` after two backslashes"
		case 32:
			line = "dir \\\\$x and \\\\\\$y" // \\$x: escaped backslash + expansion; \\\$y: escaped backslash + escaped dollar
		case 31:
			// the delimiter in another letter case is not the delimiter
			line = swapCase(delim)
			if line == delim {
				line = "body line"
			}
		case 30:
			line = "$(()) empty arithmetic"
		case 29:
			line = "costs 5$" // a dollar sign at the end of a line
		case 28:
			line = "esc \\é \\日 \\x end" // a backslash before multi-byte characters stays as it is
		case 26:
			line = delim + "\r" // carriage return behind the delimiter text: not the delimiter
		case 27:
			line = "cat <<" + delim + "x && echo <<-" + delim // looks like here-document operators: plain text
		case 24:
			line = "ar $((1 +\n2)) end" // an arithmetic expansion spanning two lines
		case 25:
			line = "sub $(a\nb c) end" // a command substitution spanning two lines
		case 22:
			line = delim + "\t" // the delimiter followed by a tab is not the delimiter
		case 23:
			if op == "<<-" {
				line = "\t" + delim + "\t\t"
			} else {
				line = delim + " "
			}
		case 20, 21:
			// a line that ends in a backslash: a continuation in an expanding body, literal text in a quoted one;
			// never the last line (whether backslash-newline can join the delimiter line is not agreed on)
			line = g.S.Pick([]string{"conti\\", "a $x b\\", "\\"})
			if i == n-1 {
				line += "\ntail"
			}
		}
		b.WriteString(line)
		b.WriteString("\n")
	}
	return b.String()
}

// simpleCmd writes a simple command.
func (g *G) simpleCmd() {
	nAssign := 0
	if g.S.Chance(1, 5) {
		nAssign = g.S.Range(1, 2)
	}
	nRedirPre := 0
	if g.S.Chance(1, 10) {
		nRedirPre = 1
	}
	first := true
	for i := 0; i < nAssign; i++ {
		if !first {
			g.blank()
		}
		first = false
		g.b.WriteString(g.name() + "=")
		if g.S.Chance(3, 4) {
			g.word(false)
		}
	}
	for i := 0; i < nRedirPre; i++ {
		if first {
			// redir() writes its own leading blank; harmless at command start
		}
		g.redir()
		first = false
	}
	hasName := nAssign == 0 && nRedirPre == 0 || g.S.Chance(2, 3)
	if hasName {
		if !first {
			g.blank()
		}
		g.b.WriteString(g.S.Pick(cmdNames))
		nArgs := g.S.Intn(4)
		for i := 0; i < nArgs; i++ {
			g.blank()
			g.word(true)
			if g.S.Chance(1, 10) {
				g.redir()
			} else if g.S.Chance(1, 14) {
				// a redirection glued to the word ("a${x}2>f": the digits belong to the word, it is not an IO_NUMBER)
				g.b.WriteString(g.S.Pick([]string{"", "2", "0", "10"}))
				g.gluedRedir()
			}
		}
		for g.S.Chance(1, 5) || g.O.HDBias && g.S.Chance(1, 4) {
			g.redir()
		}
		if g.O.HDBias && g.O.Heredocs && g.canNewlineLater() && g.S.Chance(1, 50) {
			// many here-documents pending at one newline
			n := g.S.Range(17, 24)
			for i := 0; i < n; i++ {
				g.blank()
				g.heredoc()
			}
		}
	}
}

func (g *G) compoundRedirs() {
	for g.S.Chance(1, 6) || g.O.HDBias && g.S.Chance(1, 5) {
		g.redir()
	}
}

// command writes one command (simple or compound).
func (g *G) command() {
	if g.depth >= g.O.MaxDepth || g.S.Chance(3, 5) {
		g.simpleCmd()
		return
	}
	g.depth++
	defer func() { g.depth-- }()
	k := g.S.Intn(10)
	switch k {
	case 0: // subshell
		g.inSubshell++
		defer func() { g.inSubshell-- }()
		g.b.WriteString("(")
		g.optBlank()
		if g.S.Chance(1, 8) {
			g.b.WriteString(" ") // keep "( (" apart
		}
		g.listNoLeadingParen()
		if g.pending() && g.canNewline() {
			g.newline()
		} else {
			g.optBlank()
		}
		g.b.WriteString(")")
		g.compoundRedirs()
	case 1: // group
		g.b.WriteString("{")
		g.sepAfterOpen()
		g.list(g.S.Range(1, 3), false)
		g.closeSepList()
		g.b.WriteString("}")
		g.compoundRedirs()
	case 2: // if
		g.b.WriteString("if ")
		g.list(g.S.Range(1, 2), false)
		g.closeSepList()
		g.b.WriteString("then")
		g.sepAfterOpen()
		g.list(g.S.Range(1, 2), false)
		for g.S.Chance(1, 4) {
			g.closeSepList()
			g.b.WriteString("elif ")
			g.list(1, false)
			g.closeSepList()
			g.b.WriteString("then")
			g.sepAfterOpen()
			g.list(1, false)
		}
		if g.S.Chance(1, 3) {
			g.closeSepList()
			g.b.WriteString("else")
			g.sepAfterOpen()
			g.list(g.S.Range(1, 2), false)
		}
		g.closeSepList()
		g.b.WriteString("fi")
		g.compoundRedirs()
	case 3, 4: // while / until
		if k == 3 {
			g.b.WriteString("while ")
		} else {
			g.b.WriteString("until ")
		}
		g.list(1, false)
		g.closeSepList()
		g.b.WriteString("do")
		g.sepAfterOpen()
		g.list(g.S.Range(1, 2), false)
		g.closeSepList()
		g.b.WriteString("done")
		g.compoundRedirs()
	case 5: // for
		g.b.WriteString("for " + g.name())
		switch g.S.Intn(4) {
		case 0:
			g.b.WriteString(" in")
			n := g.S.Intn(4)
			for i := 0; i < n; i++ {
				g.b.WriteString(" ")
				g.word(true)
			}
			g.closeSep()
		case 1:
			g.b.WriteString("; ")
		case 2:
			g.b.WriteString(" ")
		case 3:
			if g.canNewline() && g.O.MultiLine {
				g.newline()
				g.b.WriteString("in a b")
				g.newline()
			} else {
				g.b.WriteString(" in a; ")
			}
		}
		g.b.WriteString("do")
		g.sepAfterOpen()
		g.list(g.S.Range(1, 2), false)
		g.closeSepList()
		g.b.WriteString("done")
		g.compoundRedirs()
	case 6: // case
		g.b.WriteString("case ")
		g.word(false)
		g.b.WriteString(" in")
		g.sepAfterOpen()
		n := g.S.Intn(4)
		for i := 0; i < n; i++ {
			if g.S.Chance(1, 3) {
				g.b.WriteString("(")
			}
			np := g.S.Range(1, 3)
			for j := 0; j < np; j++ {
				if j > 0 {
					g.b.WriteString(g.S.Pick([]string{"|", " | "}))
				}
				g.b.WriteString(g.S.Pick([]string{"a", "b*", "'x y'", "\"$x\"", "[a-z]", "*", "?x", "$y", "-f"}))
			}
			g.b.WriteString(")")
			hasList := g.S.Chance(3, 4)
			if hasList {
				g.sepAfterOpen()
				if g.O.ArithCmd && g.S.Chance(1, 6) {
					// an arithmetic command inside a case item (the unmatched ')' of the pattern precedes it)
					if g.inCmdSubst == 0 && !g.inBackquote && g.inSubshell == 0 && !g.parenUpset() {
						g.b.WriteString(g.S.Pick([]string{"((x++))", "(( n <<= 1 ))", "((1))"}))
					} else {
						g.b.WriteString("((x++))")
					}
					g.b.WriteString(g.S.Pick([]string{"; ", " && ", " || "}))
				}
				g.list(g.S.Range(1, 2), false)
			}
			last := i == n-1
			if !last || g.S.Chance(2, 3) {
				if g.pending() && g.canNewline() {
					g.newline()
				} else {
					if hasList && g.S.Chance(1, 4) {
						// "a) cmd; ;;" — the list may end with its own separator
						g.optBlank()
						g.b.WriteString(g.S.Pick([]string{";", "&", ";"}))
						g.b.WriteString(" ")
					}
					g.optBlank()
				}
				g.b.WriteString(";;")
				g.sepAfterOpen()
			} else if hasList {
				g.closeSep()
			} else {
				g.sepAfterOpen()
			}
		}
		g.b.WriteString("esac")
		g.compoundRedirs()
	case 7: // function definition
		if g.O.FuncDef {
			g.names++
			g.b.WriteString(g.S.Pick([]string{"f", "g_1", "fn"}))
			g.b.WriteString(g.S.Pick([]string{"()", "( )", " ()"}))
			g.b.WriteString(" ")
			g.b.WriteString("{ ")
			g.list(1, false)
			g.closeSepList()
			g.b.WriteString("}")
			g.compoundRedirs()
		} else {
			g.simpleCmd()
		}
	case 8: // arithmetic command
		if g.O.ArithCmd {
			recognised := g.inCmdSubst == 0 && !g.inBackquote && g.inSubshell == 0 && !g.parenUpset()
			g.b.WriteString("((")
			apool := []string{" x + 1 ", "x=1", " x = y * 2 ", "x++", "1"}
			if recognised {
				// go.sh does not recognise "((" inside a command substitution or a subshell (and its parenthesis counter is upset by a case inside a subshell; grammar deviations, C02): there the
				// text is lexed as nested subshells, so operators that look like redirections or comments stay out
				apool = append(apool, " n <<= 1 ", " x < y ", " a >> 2 ", " n = 16#ff ", "1<<2")
			}
			if g.O.MultiByte {
				apool = append(apool, " é + 1 ", "\"é\" + x")
			}
			if g.S.Chance(1, 3) {
				g.b.WriteString(g.arithCompose(recognised))
			} else {
				g.b.WriteString(g.S.Pick(apool))
			}
			g.b.WriteString("))")
		} else {
			g.simpleCmd()
		}
	default:
		g.simpleCmd()
	}
}

// sepAfterOpen: what follows an opening reserved word / then / do / in / ;; : a blank or a newline.
func (g *G) sepAfterOpen() {
	if g.O.MultiLine && g.canNewline() && (g.pending() || g.S.Chance(1, 2)) {
		if g.O.InnerComments && g.S.Chance(1, 10) {
			g.b.WriteString(" ")
			g.comment()
		}
		g.newline()
		for g.S.Chance(1, 12) {
			g.newline()
		}
		if g.S.Chance(1, 2) {
			g.b.WriteString(strings.Repeat(" ", g.S.Range(1, 4)))
		}
		return
	}
	g.b.WriteString(" ")
}

func (g *G) listNoLeadingParen() {
	// a list whose first command is not itself a subshell/arith (avoids "((")
	start := g.b.Len()
	g.list(g.S.Range(1, 2), false)
	if s := g.b.String()[start:]; strings.HasPrefix(strings.TrimLeft(s, " \t"), "(") {
		// insert a blank: "( (a) )" is a nested subshell, "((a))" would be arithmetic
		full := g.b.String()
		g.b.Reset()
		g.b.WriteString(full[:start])
		g.b.WriteString(" ")
		g.b.WriteString(s)
	}
}

// pipeline writes [!] cmd [| cmd]...
func (g *G) pipeline() {
	if g.S.Chance(1, 10) {
		g.b.WriteString("! ")
	}
	g.command()
	for g.S.Chance(1, 5) {
		g.optBlank()
		g.b.WriteString("|")
		if g.O.MultiLine && g.canNewline() && !g.pending() && g.S.Chance(1, 6) {
			g.b.WriteString(g.S.Pick([]string{"", "", " ", "\t"}))
			g.newline()
		}
		g.b.WriteString(" ")
		g.command()
	}
}

func (g *G) andOr() {
	g.pipeline()
	for g.S.Chance(1, 6) {
		op := g.S.Pick([]string{" && ", " || ", "&&", "||"})
		if g.O.MultiLine && g.canNewline() && !g.pending() && g.S.Chance(1, 6) {
			// no blank between the operator and the newline: go.sh rejects "a || <blank><newline>b",
			// a deviation that belongs to the grammar properties (C02/C09), not to the ones decided here
			g.b.WriteString(strings.TrimRight(op, " "))
			g.b.WriteString(g.S.Pick([]string{"", "", " ", "\t", " \t "})) // blanks before the newline are skipped too
			g.newline()
		} else {
			g.b.WriteString(op)
		}
		g.pipeline()
	}
}

// list writes n and-or lists separated by separators (no trailing separator).
func (g *G) list(n int, singleLine bool) {
	if singleLine {
		g.noNewline++
		defer func() { g.noNewline-- }()
	}
	for i := 0; i < n; i++ {
		if i > 0 {
			g.sep()
		}
		g.andOr()
	}
}

// CompleteCommand generates one top-level item (a command line with its here-document bodies).
func (g *G) CompleteCommand(last bool) Item {
	g.b.Reset()
	g.hds = nil
	if g.S.Chance(1, 12) {
		// blank line
		if g.S.Chance(1, 4) {
			g.b.WriteString(g.S.Pick([]string{" ", "\t", "  "}))
		}
		g.b.WriteString("\n")
		return Item{Text: g.b.String(), Blank: true}
	}
	if g.S.Chance(1, 8) {
		g.b.WriteString(g.S.Pick([]string{" ", "  ", "\t"}))
	}
	n := 1
	if g.S.Chance(1, 4) {
		n = g.S.Range(2, 3)
	}
	for i := 0; i < n; i++ {
		if i > 0 {
			g.optBlank()
			g.b.WriteString(g.S.Pick([]string{";", "&", ";"}))
			g.b.WriteString(" ")
		}
		g.andOr()
	}
	if g.S.Chance(1, 8) {
		g.optBlank()
		g.b.WriteString(g.S.Pick([]string{";", "&"}))
	}
	if g.O.Comments && g.S.Chance(1, 6) {
		g.b.WriteString(" ")
		g.comment()
	} else if g.S.Chance(1, 6) {
		g.b.WriteString(g.S.Pick([]string{" ", "\t", "  "}))
	}
	if last && !g.pending() && g.S.Chance(1, 4) {
		// final command without terminating newline
		return Item{Text: g.b.String(), HDs: g.hds}
	}
	if last && g.pending() && g.S.Chance(1, 4) {
		// the stream ends right behind the last delimiter line, without a newline
		g.newline()
		return Item{Text: strings.TrimSuffix(g.b.String(), "\n"), HDs: g.hds}
	}
	g.newline()
	return Item{Text: g.b.String(), HDs: g.hds}
}

// Stream generates n items.
func (g *G) Stream(n int) []Item {
	items := make([]Item, 0, n)
	for i := 0; i < n; i++ {
		items = append(items, g.CompleteCommand(i == n-1))
	}
	return items
}

func headRune(s string) string  { return string([]rune(s)[:1]) }
func tailRunes(s string) string { return string([]rune(s)[1:]) }
