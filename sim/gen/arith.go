package gen

import "strings"

// ArithCurated: expressions with several faults and assignments (C06's Eval clause).
var ArithCurated = []string{
	"1", "1+2", "x", "x=1", "(x = 1) + 08 + (y=2) + 1/0", "x = 08, 1", "1 1", "x=y=3", "x++ + ++y", "@", "1/0", "08", "(x=1)+(y=2)+z/0",
	"1 +", "(1", "1)", "x+=1, y-=1, 1/0", "09+09", "1 ? 2 : 3", "1 ? 08 : 1/0", "x=1, 09, y=2", "(x=1) 2 (y=3)", "1 2 3", "x=1 y=2", "1/0 + 08 + @",
	"", " ", "a b c d e", "1 @ 2", "(x=1)+@+(y=2)", "x=1,@", "++1", "1++", "1=2", "x=08", "x++ ++", "0x", "1<<-1", "-1>>-1", "y=1<<-1, x=2",
}

var arithAtoms = []string{"0", "1", "2", "7", "x", "y", "z", "08", "09", "0x1f", "017", "1/0", "@", "0x", "9223372036854775807"}
var arithBin = []string{"+", "-", "*", "/", "%", "<<", ">>", "<", ">", "<=", ">=", "==", "!=", "&", "^", "|", "&&", "||", ","}
var arithAssign = []string{"=", "+=", "-=", "*=", "/=", "%=", "<<=", ">>=", "&=", "^=", "|="}

// ArithExpr generates an arithmetic expression string, frequently with several
// faults (bad constants, division by zero, stray tokens) and assignments.
func ArithExpr(s *Source, depth int) string {
	if depth <= 0 || s.Chance(1, 3) {
		return s.Pick(arithAtoms)
	}
	switch s.Intn(10) {
	case 0, 1, 2:
		return ArithExpr(s, depth-1) + sp(s) + s.Pick(arithBin) + sp(s) + ArithExpr(s, depth-1)
	case 3, 4:
		return "(" + s.Pick([]string{"x", "y", "z", "1"}) + sp(s) + s.Pick(arithAssign) + sp(s) + ArithExpr(s, depth-1) + ")"
	case 5:
		return "(" + ArithExpr(s, depth-1) + ")"
	case 6:
		return s.Pick([]string{"-", "+", "~", "!", "++", "--"}) + ArithExpr(s, depth-1)
	case 7:
		return s.Pick([]string{"x", "y", "1"}) + s.Pick([]string{"++", "--"})
	case 8:
		return ArithExpr(s, depth-1) + " ? " + ArithExpr(s, depth-1) + " : " + ArithExpr(s, depth-1)
	default:
		// juxtaposition: a syntax error in the middle
		return ArithExpr(s, depth-1) + " " + ArithExpr(s, depth-1)
	}
}

func sp(s *Source) string {
	return strings.Repeat(" ", s.Intn(2))
}
