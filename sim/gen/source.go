// Package gen contains the seeded workload generators. Every generator draws
// all of its randomness from a Source, which either follows a PRNG (and records
// what it drew) or replays a recorded choice tape; shrinking a failing case is
// then shrinking its tape and regenerating.
package gen

import "verifsim/gosim"

type Source struct {
	rng    *gosim.Rng
	tape   []uint32
	pos    int
	Rec    []uint32
	replay bool
}

func FromSeed(seed uint64) *Source { return &Source{rng: gosim.NewRng(seed)} }

func FromTape(tape []uint32) *Source { return &Source{tape: tape, replay: true} }

// Intn returns a value in [0,n). On a tape, out-of-range values wrap and an
// exhausted tape yields 0 — so every tape is a valid input for every generator,
// and 0 is always the "simplest" choice.
func (s *Source) Intn(n int) int {
	if n <= 1 {
		// still consume nothing: keeps tapes short
		return 0
	}
	var v int
	if s.replay {
		if s.pos < len(s.tape) {
			v = int(s.tape[s.pos] % uint32(n))
			s.pos++
		}
	} else {
		v = s.rng.Intn(n)
	}
	s.Rec = append(s.Rec, uint32(v))
	return v
}

// Chance: true with probability num/den; false is the simple choice.
func (s *Source) Chance(num, den int) bool { return s.Intn(den) >= den-num }

func (s *Source) Pick(xs []string) string { return xs[s.Intn(len(xs))] }

// Range returns a value in [lo,hi].
func (s *Source) Range(lo, hi int) int { return lo + s.Intn(hi-lo+1) }
