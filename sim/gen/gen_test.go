package gen

import (
	"fmt"
	"os"
	"sort"
	"strings"
	"testing"

	"github.com/hattya/go.sh/parser"
)

func TestGenSanity(t *testing.T) {
	o := FullOpts()
	if os.Getenv("NOHD") != "" {
		o.Heredocs = false
	}
	if os.Getenv("PLAINHD") != "" {
		o.HeredocBodyPool = 1
	}
	if os.Getenv("NOCOMMENT") != "" {
		o.Comments, o.InnerComments = false, false
	}
	errs := map[string]int{}
	ex := map[string]string{}
	total := 0
	for seed := 0; seed < 20000; seed++ {
		g := NewG(FromSeed(uint64(seed)), o)
		for _, it := range g.Stream(1) {
			total++
			os.WriteFile("/root/scratch/last.txt", []byte(it.Text), 0644)
			cmds, _, err := parser.ParseCommands(nil, "g", it.Text)
			_ = cmds
			if err != nil {
				k := err.Error()
				if i := strings.Index(k, ": "); i >= 0 {
					k = k[i+2:]
				}
				errs[k]++
				if len(it.Text) < len(ex[k]) || ex[k] == "" {
					ex[k] = it.Text
				}
			}
		}
	}
	var ks []string
	for k := range errs {
		ks = append(ks, k)
	}
	sort.Strings(ks)
	fmt.Printf("total %d\n", total)
	for _, k := range ks {
		e := ex[k]
		if len(e) > 160 {
			e = e[:160] + "..."
		}
		fmt.Printf("%5d %s\n      e.g. %q\n", errs[k], k, e)
	}
}
