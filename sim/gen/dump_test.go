package gen

import (
	"fmt"
	"os"
	"testing"

	"github.com/hattya/go.sh/parser"
)

// TestDumpRejected writes generated items rejected by go.sh to $DUMPDIR (one file each).
func TestDumpRejected(t *testing.T) {
	dir := os.Getenv("DUMPDIR")
	if dir == "" {
		t.Skip()
	}
	o := FullOpts()
	o.HDBias = true
	n := 0
	for seed := 0; seed < 60000 && n < 40; seed++ {
		g := NewG(FromSeed(uint64(seed)), o)
		it := g.CompleteCommand(false)
		if len(it.Text) > 1500 {
			continue
		}
		if _, _, err := parser.ParseCommands(nil, "g", it.Text); err != nil {
			os.WriteFile(fmt.Sprintf("%s/%03d.sh", dir, n), []byte(it.Text), 0o644)
			n++
		}
	}
}
