// Package gosim is a deterministic simulator for the goroutine pipelines of
// hattya/go.sh. Real goroutines of the system under test park at the
// verifYield hooks (build tag verif) and are released one at a time by a
// scheduler that runs as the main goroutine of a testing/synctest bubble and
// uses synctest.Wait for quiescence. Every decision (which parked task runs
// next, which branch of a tied select is taken) comes from a seeded policy or
// from a recorded choice tape, so one (case, seed) pair is one exactly
// repeatable execution.
package gosim

import (
	"fmt"
	"reflect"
	"runtime"
	"sort"
	"strings"
	"sync"
	"testing"
	"testing/synctest"

	"github.com/hattya/go.sh/interp"
	"github.com/hattya/go.sh/parser"
)

// Hook points; must mirror /repo/{parser,interp}/verif.go (checked by CheckHooks).
const (
	PSpawn = iota + 1
	PStart
	PTerminal
	PPreRecv
	PPostRecv
	PPreSend
	PPostSend
	PBailout
	PPreHeredoc
	PPostHeredoc
	PPreJoin
	PPostJoin
	PCancelClosed
	PPreReturn
	PReturn
	// harness pseudo points (caller task only)
	PCallerStart = 90
	PCallerMark  = 91 // between two calls of a history
)

var pointNames = map[int]string{
	PSpawn: "spawn", PStart: "start", PTerminal: "terminal", PPreRecv: "pre-recv", PPostRecv: "post-recv",
	PPreSend: "pre-send", PPostSend: "post-send", PBailout: "bailout", PPreHeredoc: "pre-heredoc",
	PPostHeredoc: "post-heredoc", PPreJoin: "pre-join", PPostJoin: "post-join", PCancelClosed: "cancel-closed",
	PPreReturn: "pre-return", PReturn: "return", PCallerStart: "caller-start", PCallerMark: "caller-mark",
}

func PointName(p int) string {
	if s, ok := pointNames[p]; ok {
		return s
	}
	return fmt.Sprintf("point-%d", p)
}

// CheckHooks verifies that the hook points compiled into /repo are the ones
// this simulator assumes.
func CheckHooks() error {
	for _, tbl := range [][]string{parser.VerifPoints[:], interp.VerifPoints[:]} {
		for p := PSpawn; p <= PReturn; p++ {
			if p >= len(tbl) || tbl[p] != pointNames[p] {
				return fmt.Errorf("hook point %d: repo says %q, simulator expects %q", p, safeIdx(tbl, p), pointNames[p])
			}
		}
		if len(tbl) != PReturn+1 {
			return fmt.Errorf("hook point table has %d entries, expected %d", len(tbl), PReturn+1)
		}
	}
	if parser.VerifForceSend != 1 || parser.VerifForceBail != 2 || interp.VerifForceSend != 1 || interp.VerifForceBail != 2 {
		return fmt.Errorf("force decision constants differ")
	}
	return nil
}

func safeIdx(t []string, i int) string {
	if i < len(t) {
		return t[i]
	}
	return "<none>"
}

// Event kinds.
const (
	EvRelease = 'R' // scheduler released a task from a yield
	EvNote    = 'N' // non-yielding note from the SUT
	EvRead    = 'r' // source reader operation
	EvWrite   = 'w' // writer operation
	EvTie     = 'T' // tie decision taken
)

type Event struct {
	Seq   int
	Kind  byte
	Task  int
	Point int
	Pkg   byte // 'p' parser, 'i' interp, 'h' harness
	Lex   int  // lexer id (spawn order), -1 if none
	Arg   string
	A, B  int // I/O events: position and value/result
}

func (e Event) String() string {
	switch e.Kind {
	case EvRelease:
		return fmt.Sprintf("%d R t%d %c:%s L%d %s", e.Seq, e.Task, e.Pkg, PointName(e.Point), e.Lex, e.Arg)
	case EvNote:
		return fmt.Sprintf("%d N t%d %c:%s L%d %s", e.Seq, e.Task, e.Pkg, PointName(e.Point), e.Lex, e.Arg)
	case EvTie:
		return fmt.Sprintf("%d T t%d L%d %s", e.Seq, e.Task, e.Lex, e.Arg)
	default:
		return fmt.Sprintf("%d %c t%d %s @%d =%d", e.Seq, e.Kind, e.Task, e.Arg, e.A, e.B)
	}
}

type Task struct {
	ID   int
	Pkg  byte
	goid uint64

	parked  bool
	point   int
	lex     int
	lexRef  interface{}
	release chan int

	lastPoint int // point it was last released from
	lastLex   int
	exited    bool // released from terminal
	OwnLex    int  // for lexer tasks: the lexer it runs; -1 for the caller
	Root      int  // top-level lexer this task works for (own lexer for a top-level lexer task)
}

// Violation classes found by the simulator itself (invariants of §3.6).
const (
	VDeadlock       = "deadlock"          // nothing runnable, caller has not finished
	VStepBudget     = "step-budget"       // run did not finish within the step budget
	VAliveAtReturn  = "alive-at-return"   // a lexer goroutine of the call had not exited when the call returned
	VOpAfterReturn  = "io-after-return"   // reader operation by a goroutine whose call has returned
	VLeak           = "goroutine-leak"    // goroutine blocked for ever after the run
	VReaderBudget   = "reader-op-budget"  // no-progress loop on the reader
	VCallerPanic    = "caller-panic"      // panic in the caller's goroutine
	VTieInParser    = "select-tie-parser" // informational probe, not a violation by itself
	VHookSanity     = "hook-sanity"       // harness trouble: expected hook points missing
	VReplayDiverged = "replay-diverged"
)

type Violation struct {
	Class  string
	Detail string
}

type Sim struct {
	mu       sync.Mutex
	tasks    map[uint64]*Task
	byID     []*Task
	pending  map[uintptr]int // lexer pointer -> lexer id announced by a spawn note
	lexIDs   map[uintptr]int
	lexRoot  []int  // lexer id -> root lexer id
	lexPkg   []byte // lexer id -> package
	lexTask  []int  // lexer id -> task id running it (-1 until started)
	returned []bool // lexer id (root) -> its entry point has returned
	lexDepth []int
	cur      *Task
	seq      int
	Log      []Event
	KeepLog  bool
	hash     uint64
	ilHash   uint64 // interleaving hash: sequence of (task, point) releases

	Policy     Policy
	Rng        *Rng
	Replay     []uint32 // if non-nil, choices are taken from here
	replayPos  int
	Tape       []uint32
	Widths     []int // number of alternatives at each recorded decision
	StepBudget int
	Steps      int
	IOOps      int

	Violations []Violation
	Probes     map[string]int

	callerDone  bool
	callers     int
	callersDone int
	callerPanic interface{}
	callerStack string
	calls       int
}

// Alive, if set, is called every 8192 scheduler steps of a run (the worker's watchdog counts it as progress).
var Alive func()

func New(policy Policy, seed uint64) *Sim {
	return &Sim{
		tasks:      map[uint64]*Task{},
		pending:    map[uintptr]int{},
		lexIDs:     map[uintptr]int{},
		Policy:     policy,
		Rng:        NewRng(seed),
		StepBudget: 200000,
		Probes:     map[string]int{},
		hash:       fnvOffset,
		ilHash:     fnvOffset,
	}
}

const fnvOffset = 14695981039346656037
const fnvPrime = 1099511628211

func fnvAdd(h uint64, s string) uint64 {
	for i := 0; i < len(s); i++ {
		h ^= uint64(s[i])
		h *= fnvPrime
	}
	return h
}

func fnvAddInt(h uint64, v int) uint64 {
	for i := 0; i < 4; i++ {
		h ^= uint64(byte(v >> (8 * i)))
		h *= fnvPrime
	}
	return h
}

func (s *Sim) LogHash() uint64          { return s.hash }
func (s *Sim) InterleavingHash() uint64 { return s.ilHash }

func goid() uint64 {
	var buf [64]byte
	n := runtime.Stack(buf[:], false)
	// "goroutine 123 ["
	var id uint64
	for i := len("goroutine "); i < n; i++ {
		c := buf[i]
		if c < '0' || c > '9' {
			break
		}
		id = id*10 + uint64(c-'0')
	}
	return id
}

func (s *Sim) violate(class, detail string) {
	s.Violations = append(s.Violations, Violation{class, detail})
}

func (s *Sim) probe(name string) { s.Probes[name]++ }

// addEvent must be called with s.mu held.
func (s *Sim) addEvent(e Event) {
	e.Seq = s.seq
	s.seq++
	s.hash = fnvAddInt(s.hash, int(e.Kind))
	s.hash = fnvAddInt(s.hash, e.Task)
	s.hash = fnvAddInt(s.hash, e.Point)
	s.hash = fnvAddInt(s.hash, e.Lex)
	s.hash = fnvAdd(s.hash, e.Arg)
	s.hash = fnvAddInt(s.hash, e.A)
	s.hash = fnvAddInt(s.hash, e.B)
	if s.KeepLog {
		s.Log = append(s.Log, e)
	}
}

func lexPtr(lex interface{}) uintptr {
	if lex == nil {
		return 0
	}
	v := reflect.ValueOf(lex)
	if v.Kind() != reflect.Ptr || v.IsNil() {
		return 0
	}
	return v.Pointer()
}

// lexID returns the id for a lexer pointer, assigning one if unknown. s.mu held.
func (s *Sim) lexID(ptr uintptr, pkg byte, root int) int {
	if ptr == 0 {
		return -1
	}
	if id, ok := s.lexIDs[ptr]; ok {
		return id
	}
	id := len(s.lexRoot)
	s.lexIDs[ptr] = id
	if root < 0 {
		root = id
	}
	s.lexRoot = append(s.lexRoot, root)
	s.lexPkg = append(s.lexPkg, pkg)
	s.lexTask = append(s.lexTask, -1)
	s.returned = append(s.returned, false)
	s.lexDepth = append(s.lexDepth, 0)
	return id
}

// hook is installed as parser.VerifHook / interp.VerifHook.
func (s *Sim) hook(pkg byte, point int, lex interface{}) int {
	g := goid()
	ptr := lexPtr(lex)
	s.mu.Lock()
	t := s.tasks[g]
	switch point {
	case PSpawn:
		// note by the parent: a new lexer (ptr) is about to be started
		root := -1
		if t != nil && pkg == 'p' {
			if nested, _ := parser.VerifLexer(lex); nested {
				root = t.Root
			}
		}
		id := s.lexID(ptr, pkg, root)
		s.pending[ptr] = id
		tid := -1
		if t != nil {
			tid = t.ID
		}
		s.addEvent(Event{Kind: EvNote, Task: tid, Point: point, Pkg: pkg, Lex: id})
		if s.lexRoot[id] != id {
			s.Probes["nested-lexer"]++
			d := 1
			if t != nil && t.OwnLex >= 0 {
				d = s.lexDepth[t.OwnLex] + 1
			}
			s.lexDepth[id] = d
			if d >= 2 {
				s.Probes["nested-lexer-depth>=2"]++
			}
		}
		s.mu.Unlock()
		return 0
	case PCancelClosed:
		tid := -1
		if t != nil {
			tid = t.ID
		}
		id := s.lexID(ptr, pkg, -1)
		s.addEvent(Event{Kind: EvNote, Task: tid, Point: point, Pkg: pkg, Lex: id})
		if t != nil && t.OwnLex == id {
			s.Probes["cancel-closed-by-lexer"]++
		} else {
			s.Probes["cancel-closed-by-parser"]++
		}
		s.mu.Unlock()
		return 0
	}
	if t == nil {
		// a goroutine we have not seen: must be a lexer goroutine at its start point
		t = &Task{ID: len(s.byID), Pkg: pkg, goid: g, release: make(chan int), OwnLex: -1, Root: -1}
		if id, ok := s.pending[ptr]; ok && point == PStart {
			delete(s.pending, ptr)
			t.OwnLex = id
			t.Root = s.lexRoot[id]
			s.lexTask[id] = t.ID
		} else {
			s.violate(VHookSanity, fmt.Sprintf("unknown goroutine arrived at %c:%s", pkg, PointName(point)))
		}
		s.tasks[g] = t
		s.byID = append(s.byID, t)
	}
	t.point = point
	t.Pkg = pkg
	t.lexRef = lex
	if ptr != 0 {
		t.lex = s.lexID(ptr, pkg, -1)
	} else {
		t.lex = -1
	}
	t.parked = true
	s.mu.Unlock()
	return <-t.release
}

// Yield parks the caller task at a harness pseudo point.
func (s *Sim) Yield(point int) {
	s.hook('h', point, nil)
}

// CurTask returns the id of the task released last (the one running now).
func (s *Sim) CurTask() int {
	if s.cur == nil {
		return -1
	}
	return s.cur.ID
}

// noteIO is called by simulated readers/writers for every operation.
// It returns true when the operation happens after the call it belongs to has returned.
func (s *Sim) noteIO(kind byte, op string, a, b int) (after bool) {
	if s == nil {
		return false // plain (unsimulated) use of the reader, e.g. in the race lane
	}
	s.mu.Lock()
	defer s.mu.Unlock()
	tid := -1
	if s.cur != nil {
		tid = s.cur.ID
		if s.cur.Root >= 0 && s.returned[s.cur.Root] {
			after = true
		}
	}
	s.addEvent(Event{Kind: kind, Task: tid, Arg: op, Lex: -1, A: a, B: b})
	s.IOOps++
	if after {
		s.Probes["io-after-return"]++
		s.violate(VOpAfterReturn, fmt.Sprintf("task t%d: %s @%d", tid, op, a))
	}
	return after
}

// Run executes body as the caller task under the scheduler. It must be called
// from inside a synctest bubble (see RunInBubble).
func (s *Sim) run(bodies []func()) {
	parser.VerifHook = func(p int, l interface{}) int { return s.hook('p', p, l) }
	interp.VerifHook = func(p int, l interface{}) int { return s.hook('i', p, l) }
	defer func() {
		parser.VerifHook = nil
		interp.VerifHook = nil
	}()

	// one caller task per body (ids 0..k-1); several bodies model independent callers that use the
	// library at the same time (their calls share nothing but package-level state, if there is any)
	s.callers = len(bodies)
	for bi, body := range bodies {
		caller := &Task{ID: bi, Pkg: 'h', release: make(chan int), OwnLex: -1, Root: -1}
		s.byID = append(s.byID, caller)
		started := make(chan struct{})
		go func() {
			s.mu.Lock()
			caller.goid = goid()
			s.tasks[caller.goid] = caller
			s.mu.Unlock()
			close(started)
			defer func() {
				if e := recover(); e != nil {
					s.mu.Lock()
					s.callerPanic = e
					buf := make([]byte, 4096)
					s.callerStack = string(buf[:runtime.Stack(buf, false)])
					s.mu.Unlock()
				}
				s.mu.Lock()
				s.callersDone++
				s.callerDone = s.callersDone == s.callers
				caller.exited = true
				s.mu.Unlock()
			}()
			s.Yield(PCallerStart)
			body()
		}()
		<-started
	}

	for {
		synctest.Wait()
		s.mu.Lock()
		var P []*Task
		for _, t := range s.byID {
			if t.parked {
				P = append(P, t)
			}
		}
		if len(P) == 0 {
			s.mu.Unlock()
			break
		}
		if s.Steps >= s.StepBudget {
			s.violate(VStepBudget, fmt.Sprintf("%d steps", s.Steps))
			s.mu.Unlock()
			break
		}
		if s.Steps&8191 == 8191 && Alive != nil {
			Alive() // very long runs: scheduler steps are progress (a run that loops through hooks ends at the step budget)
		}
		i := s.choose(P)
		t := P[i]
		decision := 0
		arg := ""
		if t.point == PPreSend {
			decision, arg = s.tieDecision(t)
		}
		// bookkeeping at release
		switch t.point {
		case PTerminal:
			t.exited = true
		case PReturn:
			if t.lex >= 0 {
				root := s.lexRoot[t.lex]
				// QUIET-AT-RETURN: every lexer task working for this root must have exited
				for _, o := range s.byID {
					if o != t && o.Root == root && o.OwnLex >= 0 && !o.exited {
						s.violate(VAliveAtReturn, fmt.Sprintf("lexer task t%d (L%d) at %s when %c entry point returned", o.ID, o.OwnLex, s.where(o), t.Pkg))
						s.Probes["alive-at-return"]++
					}
				}
				s.returned[root] = true
				s.calls++
			}
		case PPreHeredoc:
			s.Probes["hdwait"]++
		case PPostJoin:
			s.Probes["join"]++
		case PBailout:
			s.Probes["bailout"]++
		}
		if t.OwnLex >= 0 && t.Root >= 0 && s.returned[t.Root] && t.point != PTerminal {
			s.Probes["lexer-step-after-return"]++
		}
		t.parked = false
		t.lastPoint = t.point
		t.lastLex = t.lex
		s.cur = t
		s.Steps++
		s.ilHash = fnvAddInt(fnvAddInt(s.ilHash, t.ID), t.point)
		s.addEvent(Event{Kind: EvRelease, Task: t.ID, Point: t.point, Pkg: t.Pkg, Lex: t.lex, Arg: arg})
		s.mu.Unlock()
		t.release <- decision
	}

	// end of run
	s.mu.Lock()
	defer s.mu.Unlock()
	if !s.callerDone {
		var b strings.Builder
		for _, t := range s.byID {
			if !t.exited {
				fmt.Fprintf(&b, " t%d@%s", t.ID, s.where(t))
			}
		}
		if len(s.Violations) == 0 || s.Violations[len(s.Violations)-1].Class != VStepBudget {
			s.violate(VDeadlock, "nothing runnable, caller not finished; blocked:"+b.String())
		}
	} else {
		for _, t := range s.byID {
			if !t.exited {
				s.violate(VLeak, fmt.Sprintf("task t%d blocked for ever after %s", t.ID, s.where(t)))
				s.Probes["leak"]++
			}
		}
	}
	if s.callerPanic != nil {
		s.violate(VCallerPanic, fmt.Sprintf("%v\n%s", s.callerPanic, s.callerStack))
	}
}

func (s *Sim) where(t *Task) string {
	if t.parked {
		return fmt.Sprintf("%c:%s(parked)", t.Pkg, PointName(t.point))
	}
	return fmt.Sprintf("%c:%s(released)", t.Pkg, PointName(t.lastPoint))
}

// tieDecision: t is a lexer parked at pre-send and is about to be released.
// If its cancel channel is closed AND a task is natively blocked in the receive
// on the same lexer, both branches of the select in emit are ready and the Go
// runtime would pick one at random; the scheduler decides instead.
func (s *Sim) tieDecision(t *Task) (int, string) {
	var cancelled bool
	if t.Pkg == 'p' {
		_, cancelled = parser.VerifLexer(t.lexRef)
	} else {
		_, cancelled = interp.VerifLexer(t.lexRef)
	}
	if !cancelled {
		return 0, ""
	}
	receiver := false
	for _, o := range s.byID {
		if o != t && !o.parked && !o.exited && o.lastPoint == PPreRecv && o.lastLex == t.lex {
			receiver = true
		}
	}
	if !receiver {
		s.Probes["cancel-seen-at-send"]++
		return 0, "cancelled"
	}
	c := s.draw(2, func() int { return s.Policy.Tie(s) })
	if t.Pkg == 'p' {
		s.Probes["select-tie-parser"]++
	} else {
		s.Probes["select-tie-interp"]++
	}
	if c == 0 {
		s.Probes["select-tie-forced-send"]++
		return parser.VerifForceSend, "tie:send"
	}
	s.Probes["select-tie-forced-bail"]++
	return parser.VerifForceBail, "tie:bail"
}

// draw takes one decision in [0,n): from the replay tape if present, else from f.
func (s *Sim) draw(n int, f func() int) int {
	var c int
	if s.Replay != nil {
		if s.replayPos < len(s.Replay) {
			c = int(s.Replay[s.replayPos])
			s.replayPos++
		}
		if c >= n {
			c = 0
		}
	} else {
		c = f()
		if c < 0 || c >= n {
			c = 0
		}
	}
	s.Tape = append(s.Tape, uint32(c))
	s.Widths = append(s.Widths, n)
	return c
}

func (s *Sim) choose(P []*Task) int {
	if len(P) == 1 {
		// no decision to take; not recorded on the tape
		return 0
	}
	sort.Slice(P, func(i, j int) bool { return P[i].ID < P[j].ID })
	return s.draw(len(P), func() int { return s.Policy.Choose(s, P) })
}

// Result of one simulated run.
type Result struct {
	Widths     []int
	Violations []Violation
	Probes     map[string]int
	Tape       []uint32
	Steps      int
	IOOps      int
	Events     int
	LogHash    uint64
	ILHash     uint64
	Log        []Event
	BubbleErr  string
	Tasks      int
	Calls      int
}

// RunInBubble runs body under a fresh simulator inside a synctest bubble.
func RunInBubble(t *testing.T, s *Sim, bodies ...func()) (res Result) {
	func() {
		defer func() {
			if e := recover(); e != nil {
				res.BubbleErr = fmt.Sprint(e)
			}
		}()
		synctest.Test(t, func(t *testing.T) {
			s.run(bodies)
		})
	}()
	res.Violations = s.Violations
	res.Probes = s.Probes
	res.Tape = s.Tape
	res.Widths = s.Widths
	res.Steps = s.Steps
	res.IOOps = s.IOOps
	res.Events = s.seq
	res.LogHash = s.hash
	res.ILHash = s.ilHash
	res.Log = s.Log
	res.Tasks = len(s.byID)
	res.Calls = s.calls
	return
}
