package gosim

import (
	"syscall"
	"time"
	"unsafe"
)

// threadCPU: CPU time consumed by the calling OS thread (CLOCK_THREAD_CPUTIME_ID).
func threadCPU() time.Duration {
	var ts syscall.Timespec
	if _, _, e := syscall.Syscall(syscall.SYS_CLOCK_GETTIME, 3, uintptr(unsafe.Pointer(&ts)), 0); e != 0 {
		return 0
	}
	return time.Duration(ts.Sec)*time.Second + time.Duration(ts.Nsec)
}
