package gosim

import "fmt"

// Policy takes the scheduling decisions of a run. P is sorted by task id
// (= spawn order: the caller is 0, lexers follow in the order they were started).
type Policy interface {
	Name() string
	Choose(s *Sim, P []*Task) int
	Tie(s *Sim) int
}

// ParserFirst always runs the lowest task id: callers/parsers run as far as
// they can, every lexer is as late as possible.
type ParserFirst struct{ TieChoice int }

func (p ParserFirst) Name() string             { return fmt.Sprintf("parser-first/tie%d", p.TieChoice) }
func (p ParserFirst) Choose(*Sim, []*Task) int { return 0 }
func (p ParserFirst) Tie(*Sim) int             { return p.TieChoice }

// LexerFirst always runs the highest task id: every lexer runs as far ahead as
// the unbuffered channel allows.
type LexerFirst struct{ TieChoice int }

func (p LexerFirst) Name() string                 { return fmt.Sprintf("lexer-first/tie%d", p.TieChoice) }
func (p LexerFirst) Choose(_ *Sim, P []*Task) int { return len(P) - 1 }
func (p LexerFirst) Tie(*Sim) int                 { return p.TieChoice }

// Uniform picks uniformly.
type Uniform struct{}

func (Uniform) Name() string                 { return "uniform" }
func (Uniform) Choose(s *Sim, P []*Task) int { return s.Rng.Intn(len(P)) }
func (Uniform) Tie(s *Sim) int               { return s.Rng.Intn(2) }

// Sticky keeps running the task released last with probability Stay.
type Sticky struct{ Stay float64 }

func (p Sticky) Name() string { return fmt.Sprintf("sticky(%.2f)", p.Stay) }
func (p Sticky) Choose(s *Sim, P []*Task) int {
	if s.cur != nil && s.Rng.Chance(p.Stay) {
		for i, t := range P {
			if t == s.cur {
				return i
			}
		}
	}
	return s.Rng.Intn(len(P))
}
func (p Sticky) Tie(s *Sim) int { return s.Rng.Intn(2) }

// PCT: random task priorities with D priority change points at random steps
// (Burckhardt et al., "A randomized scheduler with probabilistic guarantees").
type PCT struct {
	D       int
	Horizon int
	prio    map[int]int
	change  map[int]bool
	low     int
}

func (p *PCT) Name() string { return fmt.Sprintf("pct(%d)", p.D) }
func (p *PCT) Choose(s *Sim, P []*Task) int {
	if p.prio == nil {
		p.prio = map[int]int{}
		p.change = map[int]bool{}
		h := p.Horizon
		if h <= 0 {
			h = 64
		}
		for i := 0; i < p.D; i++ {
			p.change[s.Rng.Intn(h)] = true
		}
	}
	best, bestPrio := 0, -1<<30
	for i, t := range P {
		pr, ok := p.prio[t.ID]
		if !ok {
			pr = 1000 + s.Rng.Intn(1000)
			p.prio[t.ID] = pr
		}
		if pr > bestPrio {
			best, bestPrio = i, pr
		}
	}
	if p.change[s.Steps] {
		p.low--
		p.prio[P[best].ID] = p.low
	}
	return best
}
func (p *PCT) Tie(s *Sim) int { return s.Rng.Intn(2) }

// Alternate: strict round robin by step parity (an easy-to-reason-about extreme).
type Alternate struct{}

func (Alternate) Name() string                 { return "alternate" }
func (Alternate) Choose(s *Sim, P []*Task) int { return s.Steps % len(P) }
func (Alternate) Tie(s *Sim) int               { return s.Steps % 2 }

// PickPolicy derives a policy from a seeded stream; index 0 and 1 are the extremes.
func PickPolicy(r *Rng, idx int) Policy {
	switch idx {
	case 0:
		return ParserFirst{TieChoice: 0}
	case 1:
		return LexerFirst{TieChoice: 1}
	}
	switch r.Intn(8) {
	case 0:
		return Uniform{}
	case 1:
		return Sticky{Stay: 0.5}
	case 2:
		return Sticky{Stay: 0.8}
	case 3:
		return Sticky{Stay: 0.95}
	case 4:
		return &PCT{D: 1 + r.Intn(3), Horizon: 16 << r.Intn(4)}
	case 5:
		return ParserFirst{TieChoice: 1}
	case 6:
		return LexerFirst{TieChoice: 0}
	default:
		return Alternate{}
	}
}
