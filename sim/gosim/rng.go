package gosim

// Rng is splitmix64: tiny, seedable, and its streams can be forked by mixing.
type Rng struct{ s uint64 }

func NewRng(seed uint64) *Rng { return &Rng{s: seed} }

func (r *Rng) Uint64() uint64 {
	r.s += 0x9e3779b97f4a7c15
	z := r.s
	z = (z ^ (z >> 30)) * 0xbf58476d1ce4e5b9
	z = (z ^ (z >> 27)) * 0x94d049bb133111eb
	return z ^ (z >> 31)
}

func (r *Rng) Intn(n int) int {
	if n <= 1 {
		return 0
	}
	return int(r.Uint64() % uint64(n))
}

func (r *Rng) Float() float64 { return float64(r.Uint64()>>11) / (1 << 53) }

func (r *Rng) Bool() bool { return r.Uint64()&1 == 1 }

// Chance returns true with probability p.
func (r *Rng) Chance(p float64) bool { return r.Float() < p }

// Fork derives an independent stream.
func (r *Rng) Fork(label uint64) *Rng { return NewRng(Mix(r.s, label)) }

// Mix combines values into one well-distributed 64-bit seed.
func Mix(vs ...uint64) uint64 {
	h := uint64(0x243f6a8885a308d3)
	for _, v := range vs {
		h ^= v + 0x9e3779b97f4a7c15 + (h << 6) + (h >> 2)
		z := h
		z = (z ^ (z >> 30)) * 0xbf58476d1ce4e5b9
		z = (z ^ (z >> 27)) * 0x94d049bb133111eb
		h = z ^ (z >> 31)
	}
	return h
}

func MixStr(h uint64, s string) uint64 {
	for i := 0; i < len(s); i++ {
		h = (h ^ uint64(s[i])) * 1099511628211
	}
	return Mix(h)
}
