package gosim

import (
	"context"
	"errors"
	"fmt"
	"io"
	"io/fs"
	"os"
	"syscall"
	"unicode/utf8"
)

// ErrInjected is the read/write failure the simulator injects.
var ErrInjected = errors.New("gosim: injected I/O failure")

// Other shapes a reader failure can legally have. io documents that an error
// wrapping io.EOF is not io.EOF ("Read must return EOF itself, not an error
// wrapping EOF"), and io.ErrUnexpectedEOF is an ordinary error.
var (
	ErrInjectedWrapsEOF = &fs.PathError{Op: "read", Path: "gosim", Err: io.EOF}
	ErrInjectedUnexpEOF = fmt.Errorf("gosim: injected failure: %w", io.ErrUnexpectedEOF)
)

// timeoutErr looks like a net.Error: a custom pointer type with Timeout/Temporary methods.
type timeoutErr struct{ op string }

func (e *timeoutErr) Error() string   { return "gosim: injected " + e.op + " timeout" }
func (e *timeoutErr) Timeout() bool   { return true }
func (e *timeoutErr) Temporary() bool { return true }

var ErrInjectedTimeout error = &timeoutErr{op: "read"}

// errList is an error whose dynamic type is not comparable (like go/scanner.ErrorList): code that
// compares error values with == panics on it. Is() gives errors.Is an identity test.
type errList []string

func (e errList) Error() string { return "gosim: injected failure list: " + e[0] }
func (e errList) Is(target error) bool {
	t, ok := target.(errList)
	return ok && len(t) == len(e) && len(e) > 0 && &t[0] == &e[0]
}

var ErrInjectedList error = errList{"read failed"}

// Sentinels: well-known error VALUES of the standard library delivered as they are (not wrapped): code
// that singles out one of them ("this one means the input ended") treats a failure as something else.
var Sentinels = map[string]error{
	"sentinel-unexpected-eof": io.ErrUnexpectedEOF,
	"sentinel-closed-pipe":    io.ErrClosedPipe,
	"sentinel-no-progress":    io.ErrNoProgress,
	"sentinel-short-buffer":   io.ErrShortBuffer,
	"sentinel-deadline":       os.ErrDeadlineExceeded,
	"sentinel-closed":         os.ErrClosed,
	"sentinel-canceled":       context.Canceled,
	"sentinel-eintr":          syscall.EINTR,
	"sentinel-eagain":         syscall.EAGAIN,
}

// SentinelKinds in a fixed order (choices are drawn by index).
var SentinelKinds = []string{"sentinel-unexpected-eof", "sentinel-closed-pipe", "sentinel-no-progress", "sentinel-short-buffer", "sentinel-deadline", "sentinel-closed", "sentinel-canceled", "sentinel-eintr", "sentinel-eagain"}

// InjectedErr returns the error value a reader plan injects.
func InjectedErr(kind string) error {
	switch kind {
	case "wraps-eof":
		return ErrInjectedWrapsEOF
	case "unexpected-eof":
		return ErrInjectedUnexpEOF
	case "timeout":
		return ErrInjectedTimeout
	case "uncomparable":
		return ErrInjectedList
	}
	if e, ok := Sentinels[kind]; ok {
		return e
	}
	return ErrInjected
}

// ReaderPlan is the explicit, replayable configuration of a simulated source.
type ReaderPlan struct {
	Kind        string `json:"kind"`                 // "string" | "bytes" | "scanner" | "reader"
	FaultAt     int    `json:"fault_at"`             // rune-start byte offset (scanner) / byte offset (reader); -1: none
	FaultKind   string `json:"fault_kind,omitempty"` // "persistent" | "transient" | "zero-progress" (reader only)
	Unread      string `json:"unread,omitempty"`     // scanner: "strict" (default) | "multi"
	Chunk       int    `json:"chunk,omitempty"`      // reader: max bytes per Read (0: unlimited); -1: seeded random sizes
	ChunkSeed   uint64 `json:"chunk_seed,omitempty"`
	DataErr     bool   `json:"data_err,omitempty"`      // reader: deliver the bytes before the fault together with the error
	ErrKind     string `json:"err_kind,omitempty"`      // "" plain error | "wraps-eof" | "unexpected-eof"
	FaultCall   int    `json:"fault_call,omitempty"`    // scanner: fail the n-th ReadRune call (1-based; persistent: from that call on, transient: that call only), whatever the offset — e.g. the re-read after an UnreadRune
	EOFStale    bool   `json:"eof_stale,omitempty"`     // scanner: at end of input the rune RESULT is not zeroed: (last rune delivered, 0, io.EOF) — only the error says "nothing was read"
	RuneWithErr bool   `json:"rune_with_err,omitempty"` // scanner: the failing ReadRune returns the rune at that position TOGETHER with the error (r, size>0, err)
}

// SimReader is an io.RuneScanner over a fixed text with fault injection.
type SimReader struct {
	S    *Sim
	Src  string
	Plan ReaderPlan

	lastRune          rune
	pos               int // byte offset of the next rune
	prev              int // byte offset before the last successful ReadRune; -1 if UnreadRune is not allowed
	stack             []int
	Ops               int
	Reads             int // ReadRune calls so far
	Budget            int
	Fired             int  // injected failures actually delivered
	FiredRet          bool // an injected failure was delivered before the call returned
	transientDone     bool
	EOFs              int
	MaxPos            int
	UnreadAfterUnread int
	OverBudget        bool
}

func NewSimReader(s *Sim, src string, plan ReaderPlan) *SimReader {
	return &SimReader{S: s, Src: src, Plan: plan, prev: -1, Budget: 64 * (len(src) + 16)}
}

func (r *SimReader) Pos() int { return r.pos }

// NoProgressMarker is the panic message used to stop a loop that keeps calling the reader although
// it has been answering io.EOF for a long time (the driver maps it to the class reader-no-progress-loop).
const NoProgressMarker = "gosim: reader operation budget exceeded twice: the caller spins on the reader"

func (r *SimReader) budget() bool {
	r.Ops++
	if r.Ops > 2*r.Budget+1000 {
		panic(NoProgressMarker)
	}
	if r.Ops > r.Budget {
		if !r.OverBudget {
			r.OverBudget = true
			if r.S != nil {
				r.S.mu.Lock()
				r.S.violate(VReaderBudget, "more than 64*(len+16) reader operations in one run")
				r.S.mu.Unlock()
			}
		}
		return false
	}
	return true
}

func (r *SimReader) ReadRune() (rune, int, error) {
	if !r.budget() {
		r.prev = -1
		return 0, 0, io.EOF
	}
	r.Reads++
	if r.Plan.FaultCall > 0 && (r.Reads == r.Plan.FaultCall || r.Reads > r.Plan.FaultCall && r.Plan.FaultKind != "transient") {
		r.prev = -1
		r.Fired++
		if after := r.S.noteIO(EvRead, "ReadRune!err(call)", r.pos, r.Reads); !after {
			r.FiredRet = true
		}
		return 0, 0, InjectedErr(r.Plan.ErrKind)
	}
	if r.Plan.FaultAt >= 0 && r.pos >= r.Plan.FaultAt {
		fire := false
		switch r.Plan.FaultKind {
		case "transient", "once-then-eof":
			if !r.transientDone && r.pos == r.Plan.FaultAt {
				fire = true
				r.transientDone = true
			}
		default:
			fire = true
		}
		if fire {
			r.prev = -1
			r.Fired++
			after := r.S.noteIO(EvRead, "ReadRune!err", r.pos, 0)
			if !after {
				r.FiredRet = true
			}
			if r.Plan.RuneWithErr && r.pos < len(r.Src) {
				// like an io.Reader returning n>0 together with the error: the last decodable rune comes with it
				c, size := utf8.DecodeRuneInString(r.Src[r.pos:])
				r.pos += size
				return c, size, InjectedErr(r.Plan.ErrKind)
			}
			return 0, 0, InjectedErr(r.Plan.ErrKind)
		}
	}
	if r.pos >= len(r.Src) || (r.Plan.FaultKind == "once-then-eof" && r.transientDone) {
		// "once-then-eof": after its single failure the source "recovers" into end of input
		r.prev = -1
		r.EOFs++
		r.S.noteIO(EvRead, "ReadRune!EOF", r.pos, 0)
		if r.Plan.EOFStale {
			return r.lastRune, 0, io.EOF
		}
		return 0, 0, io.EOF
	}
	c, size := utf8.DecodeRuneInString(r.Src[r.pos:])
	r.lastRune = c
	r.prev = r.pos
	if r.Plan.Unread == "multi" {
		r.stack = append(r.stack, r.pos)
	}
	r.S.noteIO(EvRead, "ReadRune", r.pos, int(c))
	r.pos += size
	if r.pos > r.MaxPos {
		r.MaxPos = r.pos
	}
	return c, size, nil
}

var errUnread = errors.New("gosim: UnreadRune: previous operation was not a successful ReadRune")

func (r *SimReader) UnreadRune() error {
	if !r.budget() {
		return errUnread
	}
	if r.Plan.Unread == "multi" {
		// legal alternative behaviour: step back one more rune each time
		if len(r.stack) == 0 {
			r.S.noteIO(EvRead, "UnreadRune!err", r.pos, 0)
			return errUnread
		}
		if r.prev < 0 {
			r.UnreadAfterUnread++
		}
		r.pos = r.stack[len(r.stack)-1]
		r.stack = r.stack[:len(r.stack)-1]
		r.prev = -1
		r.S.noteIO(EvRead, "UnreadRune", r.pos, 0)
		return nil
	}
	if r.prev < 0 {
		r.UnreadAfterUnread++
		r.S.noteIO(EvRead, "UnreadRune!err", r.pos, 0)
		return errUnread
	}
	r.pos = r.prev
	r.prev = -1
	r.S.noteIO(EvRead, "UnreadRune", r.pos, 0)
	return nil
}

// SimByteReader is a plain io.Reader (parser.open wraps it in a bufio.Reader).
type SimByteReader struct {
	S    *Sim
	Src  string
	Plan ReaderPlan

	pos           int
	Ops           int
	Budget        int
	Fired         int
	FiredRet      bool
	transientDone bool
	rng           *Rng
	OverBudget    bool
	EOFs          int
}

func NewSimByteReader(s *Sim, src string, plan ReaderPlan) *SimByteReader {
	return &SimByteReader{S: s, Src: src, Plan: plan, Budget: 64 * (len(src) + 16), rng: NewRng(plan.ChunkSeed)}
}

func (r *SimByteReader) Pos() int { return r.pos }

func (r *SimByteReader) Read(p []byte) (int, error) {
	r.Ops++
	if r.Ops > 2*r.Budget+1000 {
		panic(NoProgressMarker)
	}
	if r.Ops > r.Budget {
		if !r.OverBudget {
			r.OverBudget = true
			if r.S != nil {
				r.S.mu.Lock()
				r.S.violate(VReaderBudget, "more than 64*(len+16) Read calls in one run")
				r.S.mu.Unlock()
			}
		}
		return 0, io.EOF
	}
	if len(p) == 0 {
		return 0, nil
	}
	limit := len(r.Src)
	faultArmed := false
	if r.Plan.FaultAt >= 0 {
		switch r.Plan.FaultKind {
		case "transient":
			faultArmed = !r.transientDone
		default:
			faultArmed = true
		}
		if faultArmed && r.Plan.FaultAt < limit {
			limit = r.Plan.FaultAt
		}
	}
	if faultArmed && r.pos >= r.Plan.FaultAt {
		if r.Plan.FaultKind == "zero-progress" {
			r.Fired++
			after := r.S.noteIO(EvRead, "Read!0,nil", r.pos, 0)
			if !after {
				r.FiredRet = true
			}
			return 0, nil
		}
		r.transientDone = true
		r.Fired++
		after := r.S.noteIO(EvRead, "Read!err", r.pos, 0)
		if !after {
			r.FiredRet = true
		}
		return 0, InjectedErr(r.Plan.ErrKind)
	}
	if r.pos >= len(r.Src) {
		r.EOFs++
		r.S.noteIO(EvRead, "Read!EOF", r.pos, 0)
		return 0, io.EOF
	}
	n := limit - r.pos
	if n > len(p) {
		n = len(p)
	}
	switch {
	case r.Plan.Chunk > 0 && n > r.Plan.Chunk:
		n = r.Plan.Chunk
	case r.Plan.Chunk < 0:
		if m := 1 + r.rng.Intn(7); n > m {
			n = m
		}
	}
	copy(p, r.Src[r.pos:r.pos+n])
	r.pos += n
	if faultArmed && r.Plan.DataErr && r.pos == r.Plan.FaultAt && r.Plan.FaultKind != "zero-progress" {
		r.transientDone = true
		r.Fired++
		after := r.S.noteIO(EvRead, "Read+err", r.pos, n)
		if !after {
			r.FiredRet = true
		}
		return n, InjectedErr(r.Plan.ErrKind)
	}
	r.S.noteIO(EvRead, "Read", r.pos, n)
	return n, nil
}

// WriterPlan configures a simulated io.Writer.
type WriterPlan struct {
	Kind  string `json:"kind"`  // "ok" | "fail" | "short" | "chunk"
	After int    `json:"after"` // fail/short: total bytes accepted before the fault; chunk: max bytes accepted per call
}

type SimWriter struct {
	S                *Sim // may be nil (writer faults need no scheduler)
	Plan             WriterPlan
	Buf              []byte
	Calls            int
	Fired            int
	WritesAfterError int
}

func (w *SimWriter) Write(p []byte) (int, error) {
	w.Calls++
	if w.Fired > 0 {
		w.WritesAfterError++
	}
	switch w.Plan.Kind {
	case "fail", "short":
		room := w.Plan.After - len(w.Buf)
		if room < 0 {
			room = 0
		}
		if len(p) > room {
			w.Buf = append(w.Buf, p[:room]...)
			w.Fired++
			if w.Plan.Kind == "fail" {
				return room, ErrInjected
			}
			return room, nil
		}
	case "failfull":
		// legal: reports an error although it accepted everything it was given
		if len(w.Buf)+len(p) > w.Plan.After {
			w.Buf = append(w.Buf, p...)
			w.Fired++
			return len(p), ErrInjected
		}
	case "chunk":
		// accepts everything, but the caller sees it was a "slow" writer: we still must
		// honour the io.Writer contract (n < len(p) requires an error), so a chunk writer
		// loops internally and only counts the chunks.
		c := w.Plan.After
		if c <= 0 {
			c = 1
		}
		for off := 0; off < len(p); off += c {
			w.Fired++
		}
	}
	w.Buf = append(w.Buf, p...)
	return len(p), nil
}

// SimStringWriter is a SimWriter that also implements io.StringWriter (bufio
// hands large strings to such a destination directly, bypassing its buffer).
type SimStringWriter struct{ *SimWriter }

func (w SimStringWriter) WriteString(s string) (int, error) { return w.SimWriter.Write([]byte(s)) }

// SimWriterToReader is a SimByteReader that also implements io.WriterTo (like *os.File since Go 1.22):
// code that "drains" such a source must not lose the error WriteTo returns.
type SimWriterToReader struct{ *SimByteReader }

func (r SimWriterToReader) WriteTo(w io.Writer) (int64, error) {
	var total int64
	buf := make([]byte, 512)
	for {
		n, err := r.SimByteReader.Read(buf)
		if n > 0 {
			m, werr := w.Write(buf[:n])
			total += int64(m)
			if werr != nil {
				return total, werr
			}
		}
		if err == io.EOF {
			return total, nil
		}
		if err != nil {
			return total, err
		}
	}
}
