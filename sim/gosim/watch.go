package gosim

import (
	"os"
	"strconv"
	"strings"
	"time"
)

// SchedSnap is a snapshot of this process's scheduler accounting (/proc/self/task/*/schedstat, summed
// over all threads): time spent on a CPU and time spent runnable but waiting for one.
type SchedSnap struct {
	Run, Wait time.Duration
	OK        bool
	At        time.Time
}

func TakeSchedSnap() SchedSnap {
	s := SchedSnap{At: time.Now()}
	ents, err := os.ReadDir("/proc/self/task")
	if err != nil {
		return s
	}
	for _, e := range ents {
		b, err := os.ReadFile("/proc/self/task/" + e.Name() + "/schedstat")
		if err != nil {
			continue
		}
		f := strings.Fields(string(b))
		if len(f) < 2 {
			continue
		}
		r, e1 := strconv.ParseInt(f[0], 10, 64)
		w, e2 := strconv.ParseInt(f[1], 10, 64)
		if e1 != nil || e2 != nil {
			continue
		}
		s.Run += time.Duration(r)
		s.Wait += time.Duration(w)
		s.OK = true
	}
	return s
}

// CPUShare measures, with a short CPU-bound burst on the calling (locked) OS thread, which share of a CPU this
// process gets at the moment when it wants to run: thread CPU time / wall time of the burst, in (0, 1].
// On an idle machine it is close to 1; on a saturated or throttled one it drops, whatever the reason
// (other processes, a CPU quota, a hypervisor).
func CPUShare() float64 {
	t0, c0 := time.Now(), threadCPU()
	x := uint64(88172645463325252)
	for c := threadCPU(); c-c0 < 4*time.Millisecond; c = threadCPU() {
		for i := 0; i < 20000; i++ {
			x ^= x << 13
			x ^= x >> 7
			x ^= x << 17
		}
		if time.Since(t0) > 2*time.Second {
			break
		}
	}
	sink = x
	wall, cpu := time.Since(t0), threadCPU()-c0
	if cpu <= 0 || wall <= 0 {
		return 1
	}
	r := float64(cpu) / float64(wall)
	if r > 1 {
		r = 1
	}
	return r
}

var sink uint64

// StallVerdict judges a period without progress that began at snapshot s (wall-clock watchdogs alone call a
// starved process "hung" on a saturated machine):
//
//	"wait"     less than limit has passed, or the process was mostly runnable-but-not-running (starved)
//	"hang"     limit has passed and the process either burnt 3/4 of limit of CPU time without finishing
//	           one simulated run, or spent the time neither running nor waiting for a CPU (blocked)
//	"give-up"  starved for more than 30 x limit: inconclusive (harness trouble, never a violation)
func StallVerdict(s SchedSnap, limit time.Duration) string {
	wall := time.Since(s.At)
	if wall <= limit {
		return "wait"
	}
	now := TakeSchedSnap()
	if !s.OK || !now.OK {
		return "hang"
	}
	run, wait := now.Run-s.Run, now.Wait-s.Wait
	if run >= limit*3/4 {
		return "hang"
	}
	if wait < wall/4 {
		return "hang" // blocked: it was not kept from running by other processes
	}
	if wall > 30*limit {
		return "give-up"
	}
	return "wait"
}
