// driver: supervises the simulation workers of one property check, aggregates
// their statistics into /verif/evidence/<id>.json, minimises and records
// violations as replay files, and sets the exit code (0 held, 1 violation,
// 2 harness trouble).
package main

import (
	"bufio"
	"encoding/binary"
	"encoding/json"
	"flag"
	"fmt"
	"io"
	"os"
	"os/exec"
	"path/filepath"
	"sort"
	"strconv"
	"strings"
	"sync"
	"time"

	"verifsim/props"
	"verifsim/proto"
)

var (
	root      = envOr("VERIF_ROOT", "/verif")
	outRoot   = envOr("VERIF_OUT", root) // where evidence/ and replays/ are written
	workerBin string
)

func envOr(k, d string) string {
	if v := os.Getenv(k); v != "" {
		return v
	}
	return d
}

type laneSpec struct {
	Name string
	Env  []string
	// side lanes: another worker binary, a fraction of the cases, a fixed number of worker processes
	Bin     string
	Frac    int
	Workers int
}

// worker386Bin: the same worker built with GOARCH=386 (C01's "whatever the importing program is built as":
// 32-bit platforms have other alignment and integer-width rules).
var worker386Bin string

func lanesFor(prop string) []laneSpec {
	switch prop {
	case "C01", "C06":
		ls := []laneSpec{{Name: "panicnil=1", Env: []string{"GODEBUG=panicnil=1"}}, {Name: "panicnil=0", Env: []string{"GODEBUG=panicnil=0"}}}
		if prop == "C01" && worker386Bin != "" {
			if _, err := os.Stat(worker386Bin); err == nil {
				ls = append(ls, laneSpec{Name: "arch=386", Env: []string{"GODEBUG=panicnil=1"}, Bin: worker386Bin, Frac: 8, Workers: 2})
			}
		}
		return ls
	}
	return []laneSpec{{Name: "panicnil=1", Env: []string{"GODEBUG=panicnil=1"}}}
}

func workerCmd(lane laneSpec, job *proto.Job) *exec.Cmd {
	js, _ := json.Marshal(job)
	bin := workerBin
	if lane.Bin != "" {
		bin = lane.Bin
	}
	cmd := exec.Command(bin, "-test.run", "^TestWorker$", "-test.timeout", "0")
	cwd := filepath.Join(filepath.Dir(workerBin), "cwd")
	os.MkdirAll(cwd, 0o755)
	cmd.Dir = cwd
	cmd.Env = append([]string{"PATH=/usr/bin:/bin", "HOME=/nonexistent", "GOMAXPROCS=2", "GOMEMLIMIT=3GiB", "GOTRACEBACK=single", "VERIF_JOB=" + string(js)}, lane.Env...)
	return cmd
}

type crash struct {
	Lane   string
	Idx    int
	Kind   string // process-crash | hang | memory
	Stderr string
}

type shardResult struct {
	stats   []proto.Stats
	viols   []proto.Violation
	crashes []crash
	harness []string
	stopped string
	notes   []string
}

// tail keeps the last n bytes written to it.
type tail struct {
	mu  sync.Mutex
	buf []byte
	n   int
}

func (t *tail) Write(p []byte) (int, error) {
	t.mu.Lock()
	defer t.mu.Unlock()
	t.buf = append(t.buf, p...)
	if len(t.buf) > t.n {
		t.buf = t.buf[len(t.buf)-t.n:]
	}
	return len(p), nil
}
func (t *tail) String() string { t.mu.Lock(); defer t.mu.Unlock(); return string(t.buf) }

func runShard(lane laneSpec, job proto.Job, maxCrashes int) shardResult {
	var res shardResult
	slow := 0
	for {
		cmd := workerCmd(lane, &job)
		stdout, _ := cmd.StdoutPipe()
		errTail := &tail{n: 6000}
		cmd.Stderr = errTail
		if err := cmd.Start(); err != nil {
			res.harness = append(res.harness, "cannot start worker: "+err.Error())
			return res
		}
		rd := bufio.NewReaderSize(stdout, 1<<20)
		lastB, open := -1, false
		gotS := false
		special := ""
		for {
			line, err := rd.ReadBytes('\n')
			if len(line) > 2 && line[1] == ' ' {
				switch line[0] {
				case 'B':
					lastB, _ = strconv.Atoi(strings.TrimSpace(string(line[2:])))
					open = true
				case 'E':
					open = false
				case 'V':
					var v proto.Violation
					if e := json.Unmarshal(line[2:], &v); e == nil {
						res.viols = append(res.viols, v)
					} else {
						res.harness = append(res.harness, "bad V line: "+e.Error())
					}
				case 'S', 'P':
					var s proto.Stats
					if e := json.Unmarshal(line[2:], &s); e == nil {
						res.stats = append(res.stats, s)
						if line[0] == 'S' {
							gotS = true
						}
					} else {
						res.harness = append(res.harness, "bad S line: "+e.Error())
					}
				case 'H':
					special = "hang"
				case 'M':
					special = "memory"
				}
			}
			if err != nil {
				break
			}
		}
		werr := cmd.Wait()
		if gotS && werr == nil {
			return res
		}
		code := -1
		if ee, ok := werr.(*exec.ExitError); ok {
			code = ee.ExitCode()
		}
		if code == 2 && strings.Contains(errTail.String(), "HARNESS:") {
			// harness trouble (also inside a case: e.g. starved for ten minutes on a saturated machine): never a violation
			res.harness = append(res.harness, "worker: "+lastLines(errTail.String(), 3))
			return res
		}
		if !open || lastB < 0 {
			res.harness = append(res.harness, fmt.Sprintf("worker died outside a case (exit %d): %s", code, lastLines(errTail.String(), 12)))
			return res
		}
		kind := "process-crash"
		if special != "" {
			kind = special
		}
		if strings.Contains(errTail.String(), "reader operation budget exceeded twice") {
			kind = "reader-no-progress-loop"
		}
		if kind == "hang" {
			// believed only if the case stalls again when it runs alone in a fresh worker (the simulator is
			// deterministic: a real hang comes back, a stall of the machine does not)
			jc := &judgeClient{lane: lane}
			rs, died, _ := jc.do(&proto.Request{Op: "judge", Prop: job.Prop, Tier: job.Tier, Seed: job.Seed, Idx: lastB})
			jc.close()
			if died == "" && rs.Err == "" {
				res.notes = append(res.notes, fmt.Sprintf("case %d (lane %s): a stall was not confirmed when the case ran alone; not a hang", lastB, lane.Name))
				for _, f := range rs.Findings {
					res.viols = append(res.viols, proto.Violation{Idx: lastB, Case: rs.Case, Finding: f, Obs: rs.Obs, Lane: lane.Name})
				}
				job.Start = lastB + 1
				continue
			}
		}
		if kind == "hang" || kind == "memory" {
			slow++
		}
		res.crashes = append(res.crashes, crash{Lane: lane.Name, Idx: lastB, Kind: kind, Stderr: errTail.String()})
		if slow >= 3 {
			// every hang costs the 20 s watchdog: three in one shard establish the violation, stop this shard
			res.stopped = fmt.Sprintf("shard %d of lane %s stopped after %d hangs", job.Shard, lane.Name, slow)
			return res
		}
		if len(res.crashes) >= maxCrashes {
			res.harness = append(res.harness, fmt.Sprintf("shard %d of lane %s gave up after %d worker deaths", job.Shard, lane.Name, len(res.crashes)))
			return res
		}
		job.Start = lastB + 1
	}
}

func lastLines(s string, n int) string {
	ls := strings.Split(strings.TrimRight(s, "\n"), "\n")
	if len(ls) > n {
		ls = ls[len(ls)-n:]
	}
	return strings.Join(ls, " | ")
}

// ---------------------------------------------------------------- serve client

type server struct {
	lane laneSpec
	cmd  *exec.Cmd
	in   io.WriteCloser
	out  *bufio.Reader
	err  *tail
}

func startServer(lane laneSpec) *server {
	job := proto.Job{Mode: "serve"}
	cmd := workerCmd(lane, &job)
	in, _ := cmd.StdinPipe()
	stdout, _ := cmd.StdoutPipe()
	t := &tail{n: 6000}
	cmd.Stderr = t
	if err := cmd.Start(); err != nil {
		return nil
	}
	return &server{lane: lane, cmd: cmd, in: in, out: bufio.NewReaderSize(stdout, 1<<20), err: t}
}

func (s *server) close() {
	if s == nil {
		return
	}
	s.in.Close()
	done := make(chan struct{})
	go func() { s.cmd.Wait(); close(done) }()
	select {
	case <-done:
	case <-time.After(3 * time.Second):
		s.cmd.Process.Kill()
		<-done
	}
}

// call returns the response, or died=true (with the kind of death) if the worker process died on the request.
func (s *server) call(rq *proto.Request) (rs proto.Response, died string, stderr string) {
	b, _ := json.Marshal(rq)
	b = append(b, '\n')
	if _, err := s.in.Write(b); err != nil {
		return rs, "process-crash", s.err.String()
	}
	special := ""
	for {
		line, err := s.out.ReadBytes('\n')
		if len(line) > 2 && line[1] == ' ' {
			switch line[0] {
			case 'R':
				if e := json.Unmarshal(line[2:], &rs); e != nil {
					rs.Err = "bad response: " + e.Error()
				}
				return rs, "", ""
			case 'H':
				special = "hang"
			case 'M':
				special = "memory"
			}
		}
		if err != nil {
			s.cmd.Wait()
			if special == "" {
				special = "process-crash"
			}
			if strings.Contains(s.err.String(), "reader operation budget exceeded twice") {
				special = "reader-no-progress-loop"
			}
			if strings.Contains(s.err.String(), "HARNESS:") {
				special = "harness" // e.g. starved on a saturated machine: inconclusive, never a violation
			}
			return rs, special, s.err.String()
		}
	}
}

// judge runs a request in a fresh or reused server; a dead server is replaced.
type judgeClient struct {
	lane  laneSpec
	srv   *server
	calls int
}

func (j *judgeClient) do(rq *proto.Request) (proto.Response, string, string) {
	if j.srv == nil {
		j.srv = startServer(j.lane)
		if j.srv == nil {
			return proto.Response{Err: "cannot start worker"}, "", ""
		}
	}
	j.calls++
	rs, died, se := j.srv.call(rq)
	if died != "" {
		j.srv = nil
	}
	if died == "harness" {
		return proto.Response{Err: "harness trouble in the worker: " + lastLines(se, 2)}, "", ""
	}
	return rs, died, se
}

func (j *judgeClient) close() { j.srv.close(); j.srv = nil }

// ---------------------------------------------------------------- replay files

type Replay struct {
	Property  string             `json:"property"`
	Lane      string             `json:"lane"`
	Tier      string             `json:"tier"`
	Seed      uint64             `json:"seed"`
	Idx       int                `json:"idx"`
	Class     string             `json:"class"`
	Detail    string             `json:"detail"`
	Case      *props.Case        `json:"case"`
	Scheds    []props.Sched      `json:"scheds"`
	Hashes    []uint64           `json:"log_hashes,omitempty"`
	Minimised bool               `json:"minimised"`
	Original  *props.Case        `json:"original_case,omitempty"`
	Obs       []proto.ObsSummary `json:"observations,omitempty"`
	Stderr    string             `json:"stderr,omitempty"`
	Note      string             `json:"note,omitempty"`
}

// ---------------------------------------------------------------- known findings

type Known struct {
	Property string `json:"property"`
	Status   string `json:"status"` // known | fixed
	Class    string `json:"class"`
	Src      string `json:"src,omitempty"` // exact source text / expression of the failing case
	Kind     string `json:"kind,omitempty"`
	Lane     string `json:"lane,omitempty"`
	What     string `json:"what"`
	Commit   string `json:"commit,omitempty"`
}

func loadKnown() []Known {
	var ks []Known
	b, err := os.ReadFile(filepath.Join(root, "known_findings.json"))
	if err != nil {
		return nil
	}
	var doc struct {
		Findings []Known `json:"findings"`
	}
	if json.Unmarshal(b, &doc) == nil {
		ks = doc.Findings
	}
	return ks
}

func matchKnown(ks []Known, prop, class, lane string, c *props.Case) *Known {
	for i := range ks {
		k := &ks[i]
		if k.Status != "known" || k.Property != prop || k.Class != class {
			continue
		}
		if k.Lane != "" && k.Lane != lane {
			continue
		}
		if k.Kind != "" && k.Kind != c.Kind {
			continue
		}
		if k.Src == c.Src {
			return k
		}
	}
	return nil
}

// ---------------------------------------------------------------- minimisation

type minimiser struct {
	j        *judgeClient
	prop     string
	tier     string
	seed     uint64
	idx      int
	class    string
	budget   int
	deadline time.Time
	textOK   bool
}

type attempt struct {
	ok     bool
	rs     proto.Response
	died   string
	stderr string
	find   *props.Finding
}

func (m *minimiser) try(rq *proto.Request) attempt {
	if m.budget <= 0 || time.Now().After(m.deadline) {
		return attempt{}
	}
	m.budget--
	rq.Prop, rq.Tier, rq.Seed, rq.Idx, rq.Op = m.prop, m.tier, m.seed, m.idx, "judge"
	rs, died, se := m.j.do(rq)
	a := attempt{rs: rs, died: died, stderr: se}
	if died != "" {
		a.ok = died == m.class
		return a
	}
	for i := range rs.Findings {
		if rs.Findings[i].Class == m.class && !rs.Findings[i].Harness {
			a.ok = true
			a.find = &rs.Findings[i]
			break
		}
	}
	return a
}

func ddmin[T any](xs []T, test func([]T) bool) []T {
	n := 2
	for len(xs) >= 1 {
		chunk := (len(xs) + n - 1) / n
		reduced := false
		for i := 0; i < len(xs); i += chunk {
			j := i + chunk
			if j > len(xs) {
				j = len(xs)
			}
			cand := append(append([]T{}, xs[:i]...), xs[j:]...)
			if test(cand) {
				xs = cand
				if n > 2 {
					n--
				}
				reduced = true
				break
			}
		}
		if !reduced {
			if chunk <= 1 {
				break
			}
			n *= 2
			if n > len(xs) {
				n = len(xs)
			}
		}
	}
	return xs
}

// minimise returns the smallest case found that still shows the class, with the schedules that show it.
func (m *minimiser) minimise(v *proto.Violation) (*props.Case, []props.Sched, *attempt) {
	cur := v.Case
	var best *attempt
	// A. generator tape
	if len(v.GenTape) > 0 {
		tape := ddmin(append([]uint32{}, v.GenTape...), func(cand []uint32) bool {
			a := m.try(&proto.Request{Case: cur, GenTape: nonNil(cand)})
			if a.ok && a.rs.Case != nil || a.ok && a.died != "" {
				if a.rs.Case != nil {
					cur = a.rs.Case
				}
				best = &a
				return true
			}
			return false
		})
		// lower entries (0 is the simplest choice of every generator decision), then delete once more
		for pass := 0; pass < 2; pass++ {
			for i := range tape {
				for _, nv := range []uint32{0, tape[i] / 2} {
					if tape[i] <= nv {
						continue
					}
					old := tape[i]
					tape[i] = nv
					a := m.try(&proto.Request{Case: cur, GenTape: tape})
					if a.ok {
						if a.rs.Case != nil {
							cur = a.rs.Case
						}
						best = &a
						break
					}
					tape[i] = old
				}
			}
			tape = ddmin(tape, func(cand []uint32) bool {
				a := m.try(&proto.Request{Case: cur, GenTape: nonNil(cand)})
				if a.ok {
					if a.rs.Case != nil {
						cur = a.rs.Case
					}
					best = &a
				}
				return a.ok
			})
		}
		if best != nil && best.died != "" && best.rs.Case == nil {
			// crashed while regenerating+running: ask for the case description
			rs, _, _ := m.j.do(&proto.Request{Op: "describe", Prop: m.prop, Tier: m.tier, Seed: m.seed, Idx: m.idx, Case: cur, GenTape: tape})
			if rs.Case != nil {
				cur = rs.Case
			}
		}
	}
	// B. text
	if m.textOK && cur.Src != "" {
		rs := []rune(cur.Src)
		rs = ddmin(rs, func(cand []rune) bool {
			c2 := *cur
			c2.Src = string(cand)
			c2.GenTape = nil
			if c2.Reader.FaultAt > len(c2.Src) {
				c2.Reader.FaultAt = len(c2.Src)
			}
			a := m.try(&proto.Request{Case: &c2})
			if a.ok {
				best = &a
				return true
			}
			return false
		})
		c2 := *cur
		c2.Src = string(rs)
		c2.GenTape = nil
		if c2.Reader.FaultAt > len(c2.Src) {
			c2.Reader.FaultAt = len(c2.Src)
		}
		cur = &c2
		// aliases
		if len(cur.Aliases) > 0 {
			al := ddmin(cur.Aliases, func(cand [][2]string) bool {
				c3 := *cur
				c3.Aliases = cand
				a := m.try(&proto.Request{Case: &c3})
				if a.ok {
					best = &a
				}
				return a.ok
			})
			c3 := *cur
			c3.Aliases = al
			cur = &c3
		}
	}
	// C. schedules: re-judge the final case to get tapes
	saveBudget := m.budget
	if m.budget < 40 {
		m.budget = 40
	}
	m.deadline = m.deadline.Add(20 * time.Second)
	a := m.try(&proto.Request{Case: cur})
	if !a.ok {
		// could not reproduce on the final case: fall back to the original
		cur = v.Case
		a = m.try(&proto.Request{Case: cur})
	}
	_ = saveBudget
	if !a.ok {
		return cur, nil, &a
	}
	if a.died != "" {
		return cur, nil, &a
	}
	var scheds []props.Sched
	for _, i := range a.find.Obs {
		if i < len(a.rs.Obs) {
			o := a.rs.Obs[i]
			scheds = append(scheds, props.Sched{UseTape: true, Tape: nonNil(o.Tape), Policy: o.Sched.Policy})
		}
	}
	if len(scheds) == 0 {
		return cur, nil, &a
	}
	b := m.try(&proto.Request{Case: cur, Scheds: scheds})
	if !b.ok {
		// the oracle may need more observations than the ones it named: keep all schedules as tapes
		scheds = nil
		for _, o := range a.rs.Obs {
			scheds = append(scheds, props.Sched{UseTape: true, Tape: nonNil(o.Tape), Policy: o.Sched.Policy})
		}
		b = m.try(&proto.Request{Case: cur, Scheds: scheds})
		if !b.ok {
			return cur, nil, &a
		}
	}
	final := b
	// zero tape entries from the end (0 = run the lowest task id: no preemption)
	for si := range scheds {
		t := scheds[si].Tape
		for k := len(t) - 1; k >= 0; k-- {
			if t[k] == 0 {
				continue
			}
			old := t[k]
			t[k] = 0
			c := m.try(&proto.Request{Case: cur, Scheds: scheds})
			if c.ok && c.died == "" {
				final = c
			} else {
				t[k] = old
			}
		}
		for len(t) > 0 && t[len(t)-1] == 0 {
			t = t[:len(t)-1]
		}
		scheds[si].Tape = nonNil(t)
	}
	// final confirmation with the trimmed tapes
	c := m.try(&proto.Request{Case: cur, Scheds: scheds, KeepLog: true})
	if c.ok {
		final = c
	}
	return cur, scheds, &final
}

func nonNil(t []uint32) []uint32 {
	if t == nil {
		return []uint32{}
	}
	return t
}

// ---------------------------------------------------------------- evidence

type Evidence struct {
	PropertyID  string                 `json:"property_id"`
	Tier        string                 `json:"tier"`
	Seed        uint64                 `json:"seed"`
	Level       string                 `json:"level"`
	Coverage    map[string]interface{} `json:"coverage"`
	Assumptions []string               `json:"assumptions"`
	WallS       float64                `json:"wall_s"`
	Violations  int                    `json:"violations"`
}

func unionSets(dir, prefix string) int {
	files, _ := filepath.Glob(filepath.Join(dir, prefix+".*"))
	set := map[uint64]struct{}{}
	for _, f := range files {
		b, err := os.ReadFile(f)
		if err != nil {
			continue
		}
		for i := 0; i+8 <= len(b); i += 8 {
			set[binary.LittleEndian.Uint64(b[i:])] = struct{}{}
		}
	}
	return len(set)
}

var levels = map[string]string{"C01": "exploration", "C06": "exploration", "C07": "exploration", "C08": "exploration", "C10": "fault_enumeration", "C18": "fault_enumeration", "C20": "exploration"}

func main() {
	prop := flag.String("prop", "", "property id")
	tier := flag.String("tier", envOr("VERIF_TIER", "quick"), "quick | thorough")
	seedS := flag.String("seed", envOr("VERIF_SEED", "1"), "seed")
	replay := flag.String("replay", "", "replay file")
	nworkers := flag.Int("workers", 16, "worker processes")
	flag.StringVar(&workerBin, "worker", filepath.Join(root, ".build", "sim.test"), "worker test binary")
	flag.StringVar(&worker386Bin, "worker386", "", "worker test binary built with GOARCH=386 (side lane of C01)")
	maxSec := flag.Int("max-sec", 0, "wall-clock cap per worker (0: tier default)")
	noMin := flag.Bool("no-minimise", false, "skip minimisation")
	flag.Parse()
	seed, err := strconv.ParseUint(*seedS, 10, 64)
	if err != nil {
		// any string is accepted as a seed: hash it
		var h uint64 = 1469598103934665603
		for i := 0; i < len(*seedS); i++ {
			h = (h ^ uint64((*seedS)[i])) * 1099511628211
		}
		seed = h
	}
	if *replay != "" {
		os.Exit(doReplay(*replay))
	}
	if *prop == "" {
		fmt.Fprintln(os.Stderr, "usage: driver -prop <id> [-tier quick|thorough] | -replay <file>")
		os.Exit(2)
	}
	os.Exit(doCheck(*prop, *tier, seed, *nworkers, *maxSec, *noMin))
}

func doCheck(prop, tier string, seed uint64, nworkers, maxSec int, noMin bool) int {
	start := time.Now()
	if maxSec == 0 {
		maxSec = 150
		if tier == "thorough" {
			maxSec = 3000
		}
	}
	lanes := lanesFor(prop)
	mainLanes := 0
	for _, l := range lanes {
		if l.Frac == 0 {
			mainLanes++
		}
	}
	per := nworkers / mainLanes
	if per < 1 {
		per = 1
	}
	outDir := filepath.Join(filepath.Dir(workerBin), fmt.Sprintf("run-%s-%d", prop, os.Getpid()))
	os.RemoveAll(outDir)
	defer os.RemoveAll(outDir)
	var mu sync.Mutex
	var wg sync.WaitGroup
	var all shardResult
	laneStats := map[string]*proto.Stats{}
	for _, lane := range lanes {
		ldir := filepath.Join(outDir, lane.Name)
		os.MkdirAll(ldir, 0o755)
		nsh, stride := per, per
		if lane.Frac > 0 {
			// a side lane runs every Frac-th case only, in its own few processes; its statistics are kept apart
			nsh, stride = lane.Workers, lane.Workers*lane.Frac
		}
		for sh := 0; sh < nsh; sh++ {
			wg.Add(1)
			go func(lane laneSpec, sh int) {
				defer wg.Done()
				job := proto.Job{Mode: "explore", Prop: prop, Tier: tier, Seed: seed, Shard: sh, NShards: stride, OutDir: ldir, MaxSec: maxSec, Lane: lane.Name}
				r := runShard(lane, job, 400)
				mu.Lock()
				if lane.Frac == 0 {
					all.stats = append(all.stats, r.stats...)
				}
				all.viols = append(all.viols, r.viols...)
				all.crashes = append(all.crashes, r.crashes...)
				all.harness = append(all.harness, r.harness...)
				if r.stopped != "" {
					fmt.Println("note:", r.stopped)
				}
				for _, n := range r.notes {
					fmt.Println("note:", n)
				}
				ls := laneStats[lane.Name]
				if ls == nil {
					ls = &proto.Stats{Probes: map[string]int{}, Faults: map[string]int{}, Policies: map[string]int{}}
					laneStats[lane.Name] = ls
				}
				for _, s := range r.stats {
					ls.Cases += s.Cases
					ls.Runs += s.Runs
				}
				mu.Unlock()
			}(lane, sh)
		}
	}
	wg.Wait()

	// merge statistics
	tot := proto.Stats{Probes: map[string]int{}, Faults: map[string]int{}, Policies: map[string]int{}, Exhaustive: map[string]int{}}
	complete := true
	for _, s := range all.stats {
		tot.Cases += s.Cases
		tot.Runs += s.Runs
		tot.Steps += s.Steps
		tot.IOOps += s.IOOps
		for k, v := range s.Probes {
			tot.Probes[k] += v
		}
		for k, v := range s.Faults {
			tot.Faults[k] += v
		}
		for k, v := range s.Policies {
			tot.Policies[k] += v
		}
		for k, v := range s.Exhaustive {
			tot.Exhaustive[k] += v
		}
		if len(tot.Samples) < 8 {
			for _, sm := range s.Samples {
				if len(tot.Samples) < 8 {
					tot.Samples = append(tot.Samples, sm)
				}
			}
		}
		if s.Final && !s.Complete {
			complete = false
		}
	}
	distinctCases, distinctNT, distinctIL, distinctOut := 0, 0, 0, 0
	for _, lane := range lanes {
		ldir := filepath.Join(outDir, lane.Name)
		if c := unionSets(ldir, "cases"); c > distinctCases {
			distinctCases = c // lanes run the same cases: count them once
		}
		if c := unionSets(ldir, "nontrivial"); c > distinctNT {
			distinctNT = c
		}
		distinctIL += unionSets(ldir, "interleavings")
		distinctOut += unionSets(ldir, "outcomes")
	}

	// findings
	known := loadKnown()
	type group struct {
		v     proto.Violation
		count int
	}
	groups := map[string]*group{}
	var order []string
	addV := func(v proto.Violation) {
		key := v.Lane + "|" + v.Finding.Class + "|" + v.Case.Key()
		if g, ok := groups[key]; ok {
			g.count++
			return
		}
		groups[key] = &group{v: v, count: 1}
		order = append(order, key)
	}
	harnessFindings := 0
	for _, v := range all.viols {
		if v.Finding.Harness {
			harnessFindings++
			all.harness = append(all.harness, "harness finding: "+v.Finding.Class+": "+v.Finding.Detail)
			continue
		}
		addV(v)
	}
	// crashes: fetch their cases
	if len(all.crashes) > 0 {
		byLane := map[string]*judgeClient{}
		for _, cr := range all.crashes {
			var lane laneSpec
			for _, l := range lanes {
				if l.Name == cr.Lane {
					lane = l
				}
			}
			jc := byLane[cr.Lane]
			if jc == nil {
				jc = &judgeClient{lane: lane}
				byLane[cr.Lane] = jc
			}
			rs, _, _ := jc.do(&proto.Request{Op: "describe", Prop: prop, Tier: tier, Seed: seed, Idx: cr.Idx})
			if rs.Case == nil {
				all.harness = append(all.harness, fmt.Sprintf("cannot describe crashed case %d: %s", cr.Idx, rs.Err))
				continue
			}
			addV(proto.Violation{Idx: cr.Idx, Case: rs.Case, GenTape: rs.Case.GenTape, Lane: cr.Lane,
				Finding: props.Finding{Class: cr.Kind, Detail: crashDetail(cr.Stderr)}})
		}
		for _, jc := range byLane {
			jc.close()
		}
	}

	var race raceSummary
	if prop == "C06" {
		race = raceLane(tier, seed)
		all.harness = append(all.harness, race.Harness...)
	}
	// smallest failing cases first: they get the replay files
	size := func(k string) int {
		c := groups[k].v.Case
		return len(c.Src) + 40*len(c.History) + 20*len(c.Aliases)
	}
	sort.Slice(order, func(i, j int) bool {
		if si, sj := size(order[i]), size(order[j]); si != sj {
			return si < sj
		}
		return order[i] < order[j]
	})
	nviol := 0
	knownHits := map[string]int{}
	os.MkdirAll(filepath.Join(outRoot, "replays"), 0o755)
	if old, _ := filepath.Glob(filepath.Join(outRoot, "replays", prop+"-*.json")); len(old) > 0 {
		for _, f := range old {
			os.Remove(f)
		}
	}
	var vlines []string
	classCount := map[string]int{}
	for _, key := range order {
		g := groups[key]
		if k := matchKnown(known, prop, g.v.Finding.Class, g.v.Lane, g.v.Case); k != nil {
			knownHits[fmt.Sprintf("KNOWN-FINDING: property=%s %s [%s] src=%q", prop, k.What, k.Class, k.Src)]++
			continue
		}
		nviol++
		classCount[g.v.Finding.Class]++
		if classCount[g.v.Finding.Class] > 3 || nviol > 12 {
			continue // reported in the summary line below; replay files only for the first few per class
		}
		var lane laneSpec
		for _, l := range lanes {
			if l.Name == g.v.Lane {
				lane = l
			}
		}
		rp := Replay{Property: prop, Lane: g.v.Lane, Tier: tier, Seed: seed, Idx: g.v.Idx, Class: g.v.Finding.Class, Detail: g.v.Finding.Detail, Case: g.v.Case, Obs: g.v.Obs}
		for _, o := range g.v.Obs {
			rp.Scheds = append(rp.Scheds, props.Sched{UseTape: true, Tape: nonNil(o.Tape), Policy: o.Sched.Policy})
			rp.Hashes = append(rp.Hashes, o.LogHash)
		}
		if len(g.v.Obs) == 0 {
			rp.Note = "no schedule recorded (process death): the replay runs the planned schedules of this case index"
		}
		if !noMin {
			jc := &judgeClient{lane: lane}
			m := &minimiser{j: jc, prop: prop, tier: tier, seed: seed, idx: g.v.Idx, class: g.v.Finding.Class, budget: 1200, deadline: time.Now().Add(90 * time.Second), textOK: textShrinkable(prop, g.v.Case)}
			vv := g.v
			c, scheds, a := m.minimise(&vv)
			jc.close()
			if a != nil && a.ok {
				rp.Original = g.v.Case
				rp.Case = c
				rp.Minimised = true
				rp.Scheds = scheds
				rp.Hashes = nil
				rp.Obs = nil
				if a.died != "" {
					rp.Stderr = crashDetail(a.stderr)
					rp.Note = "process death: the replay runs the planned schedules of this case index on the minimised case"
				} else {
					if a.find != nil {
						rp.Detail = a.find.Detail
					}
					for _, o := range a.rs.Obs {
						rp.Hashes = append(rp.Hashes, o.LogHash)
						rp.Obs = append(rp.Obs, o)
					}
				}
			} else {
				rp.Note += " (minimisation could not reproduce the violation in a fresh worker; original kept)"
			}
		}
		path := filepath.Join(outRoot, "replays", fmt.Sprintf("%s-%d-%d.json", prop, seed, nviol))
		b, _ := json.MarshalIndent(&rp, "", " ")
		os.WriteFile(path, b, 0o644)
		vlines = append(vlines, fmt.Sprintf("VIOLATION property=%s replay=%s", prop, path))
		fmt.Printf("  [%s] %s: %s\n    case: %s\n", rp.Lane, rp.Class, shorten(rp.Detail, 300), shorten(caseBrief(rp.Case), 300))
	}
	if len(race.Reports) > 0 {
		seenIdx := map[int]bool{}
		for _, r := range race.Reports {
			if seenIdx[r.Idx] {
				continue
			}
			seenIdx[r.Idx] = true
			nviol++
			if len(seenIdx) > 3 {
				continue
			}
			jc := &judgeClient{lane: lanes[0]}
			rs, _, _ := jc.do(&proto.Request{Op: "describe", Prop: prop, Tier: "quick", Seed: seed, Idx: r.Idx})
			jc.close()
			rp := Replay{Property: prop, Lane: fmt.Sprintf("race/GOMAXPROCS=%d", r.Procs), Tier: tier, Seed: seed, Idx: r.Idx, Class: raceClass(r), Detail: shorten(r.Report, 3000), Case: rs.Case,
				Note: "race lane (real scheduler, -race build): the replay re-runs this case 50 times under the race detector; reports are true positives but their occurrence is not deterministic"}
			path := filepath.Join(outRoot, "replays", fmt.Sprintf("%s-%d-race-%d.json", prop, seed, r.Idx))
			b, _ := json.MarshalIndent(&rp, "", " ")
			os.WriteFile(path, b, 0o644)
			vlines = append(vlines, fmt.Sprintf("VIOLATION property=%s replay=%s", prop, path))
			fmt.Printf("  [race lane, GOMAXPROCS=%d] "+raceClass(r)+" in case %d: %s\n", r.Procs, r.Idx, shorten(strings.ReplaceAll(r.Report, "\n", " | "), 500))
		}
	}
	var kh []string
	for k := range knownHits {
		kh = append(kh, k)
	}
	sort.Strings(kh)
	for _, k := range kh {
		fmt.Printf("%s (x%d)\n", k, knownHits[k])
	}
	for _, l := range vlines {
		fmt.Println(l)
	}
	if nviol > len(vlines) {
		fmt.Printf("(%d further distinct violating cases not written as replay files; classes: %v)\n", nviol-len(vlines), classCount)
	}

	// evidence
	wall := time.Since(start).Seconds()
	ev := Evidence{PropertyID: prop, Tier: tier, Seed: seed, Level: levels[prop], WallS: wall, Violations: nviol}
	zeroProbes := []string{}
	for _, want := range wantedProbes(prop) {
		if tot.Probes[want] == 0 {
			zeroProbes = append(zeroProbes, want)
		}
	}
	var samples []interface{}
	for _, s := range tot.Samples {
		samples = append(samples, s)
	}
	runsPerHour := 0.0
	if wall > 0 {
		runsPerHour = float64(tot.Runs) / wall * 3600
	}
	laneInfo := map[string]interface{}{}
	for k, v := range laneStats {
		laneInfo[k] = map[string]int{"cases": v.Cases, "runs": v.Runs}
	}
	ev.Coverage = map[string]interface{}{
		"evaluations":            tot.Runs,
		"distinct_nontrivial":    distinctNT,
		"rule":                   ruleFor(prop),
		"samples":                samples,
		"cases":                  tot.Cases,
		"distinct_cases":         distinctCases,
		"distinct_interleavings": distinctIL,
		"distinct_outcomes":      distinctOut,
		"scheduler_steps":        tot.Steps,
		"io_operations":          tot.IOOps,
		"simulated_time_note":    "go.sh has no clocks or timers: simulated time is reported as scheduler steps and reader/writer operations",
		"runs_per_hour":          int64(runsPerHour),
		"seeds_per_hour":         int64(runsPerHour),
		"fault_kinds_fired":      tot.Faults,
		"probes":                 tot.Probes,
		"probes_stuck_at_zero":   zeroProbes,
		"policies":               tot.Policies,
		"lanes":                  laneInfo,
		"worker_deaths":          len(all.crashes),
		"known_findings_hit":     len(knownHits),
		"index_range_complete":   complete,
		"cases_by_kind":          tot.Exhaustive,
		"exhaustive_subspaces":   exhaustiveSpaces(prop, tier, len(lanes), tot.Exhaustive),
		"exhaustive":             false,
		"race_lane":              raceEvidence(prop, race),
		"real_code":              []string{"parser (lexer, goyacc tables, grammar actions)", "interp (Eval, Expand, ExecEnv)", "printer", "ast", "pattern"},
		"stubbed":                []string{"source reader (SimReader/SimByteReader)", "output writer (SimWriter)", "goroutine scheduling choice (verifYield hooks + synctest quiescence)", "select tie in emit (forced from the tape)"},
		"pinned":                 []string{"environment (scrubbed)", "pid ($$ never generated)", "cwd (empty scratch dir)"},
	}
	ev.Assumptions = []string{
		"go1.26.8 runtime and testing/synctest quiescence detection are correct",
		"hook lines are behaviour-neutral with the verif tag off (baseline_off_cmd) and schedule-neutral with it on",
		"interleavings are explored at the granularity of synchronisation operations",
		"sampling: a clean batch is evidence, not proof",
	}
	os.MkdirAll(filepath.Join(outRoot, "evidence"), 0o755)
	eb, _ := json.MarshalIndent(&ev, "", " ")
	os.WriteFile(filepath.Join(outRoot, "evidence", prop+".json"), eb, 0o644)

	fmt.Printf("%s %s seed=%d: %d cases, %d runs, %d distinct interleavings, %d worker deaths, %d violations, %d known, %.1fs\n",
		prop, tier, seed, tot.Cases, tot.Runs, distinctIL, len(all.crashes), nviol, len(knownHits), wall)
	if len(zeroProbes) > 0 {
		fmt.Printf("warning: probes stuck at zero: %v\n", zeroProbes)
	}
	if len(all.harness) > 0 {
		for i, h := range all.harness {
			if i < 10 {
				fmt.Fprintln(os.Stderr, "HARNESS:", shorten(h, 600))
			}
		}
		if nviol > 0 {
			return 1
		}
		return 2
	}
	if nviol > 0 {
		return 1
	}
	if tot.Runs == 0 {
		fmt.Fprintln(os.Stderr, "HARNESS: no runs executed")
		return 2
	}
	return 0
}

func textShrinkable(prop string, c *props.Case) bool {
	switch prop {
	case "C07", "C08":
		return false
	}
	return c.Kind == "parse" || c.Kind == "eval" || c.Kind == "expand" || c.Kind == "print"
}

func crashDetail(stderr string) string {
	// keep the panic message and the first frames
	i := strings.Index(stderr, "panic:")
	if j := strings.Index(stderr, "fatal error:"); j >= 0 && (i < 0 || j < i) {
		i = j
	}
	if i < 0 {
		return lastLines(stderr, 8)
	}
	s := stderr[i:]
	ls := strings.Split(s, "\n")
	if len(ls) > 14 {
		ls = ls[:14]
	}
	return strings.Join(ls, " | ")
}

func shorten(s string, n int) string {
	if len(s) > n {
		return s[:n] + "…"
	}
	return s
}

func caseBrief(c *props.Case) string {
	if c == nil {
		return "<nil>"
	}
	b, _ := json.Marshal(c)
	return string(b)
}

func doReplay(path string) int {
	b, err := os.ReadFile(path)
	if err != nil {
		fmt.Fprintln(os.Stderr, "HARNESS:", err)
		return 2
	}
	var rp Replay
	if err := json.Unmarshal(b, &rp); err != nil {
		fmt.Fprintln(os.Stderr, "HARNESS: bad replay file:", err)
		return 2
	}
	if rp.Class == "data-race" || rp.Class == "result-differs-real-scheduler" {
		procs := 2
		fmt.Sscanf(rp.Lane, "race/GOMAXPROCS=%d", &procs)
		if procs == 0 {
			// a difference BETWEEN processes: the case (or the burst) again at GOMAXPROCS 1, 2 and 16
			for _, pr := range []int{1, 2, 16} {
				if _, _, h := runRaceProc(rp.Seed, rp.Idx+1, 0, 1, rp.Idx, pr, 1); h != "" {
					fmt.Fprintln(os.Stderr, "HARNESS:", h)
					return 2
				}
			}
			seen := map[string]bool{}
			for _, h := range raceRes.m[rp.Idx] {
				seen[h] = true
			}
			if len(seen) > 1 {
				fmt.Printf("replay: %d different results for the same arguments at GOMAXPROCS 1, 2, 16\n", len(seen))
				fmt.Printf("VIOLATION property=%s replay=%s\n", rp.Property, path)
				return 1
			}
			fmt.Println("replay: the same result at GOMAXPROCS 1, 2 and 16 this time (this lane is not deterministic)")
			return 0
		}
		rs, _, h := runRaceProc(rp.Seed, rp.Idx+1, 0, 1, rp.Idx, procs, 50)
		if h != "" {
			fmt.Fprintln(os.Stderr, "HARNESS:", h)
			return 2
		}
		if len(rs) > 0 {
			fmt.Printf("replay: %d race reports in 50 executions; first:\n%s\n", len(rs), rs[0].Report)
			fmt.Printf("VIOLATION property=%s replay=%s\n", rp.Property, path)
			return 1
		}
		fmt.Println("replay: no race report in 50 executions (this lane is not deterministic)")
		return 0
	}
	var lane laneSpec
	for _, l := range lanesFor(rp.Property) {
		if l.Name == rp.Lane {
			lane = l
		}
	}
	if lane.Name == "" {
		lane = lanesFor(rp.Property)[0]
	}
	jc := &judgeClient{lane: lane}
	defer jc.close()
	rq := &proto.Request{Op: "judge", Prop: rp.Property, Tier: rp.Tier, Seed: rp.Seed, Idx: rp.Idx, Case: rp.Case, Scheds: rp.Scheds, KeepLog: true}
	rs, died, se := jc.do(rq)
	if died != "" {
		fmt.Printf("replay: worker died (%s): %s\n", died, shorten(crashDetail(se), 400))
		if died == rp.Class {
			fmt.Printf("VIOLATION property=%s replay=%s\n", rp.Property, path)
			return 1
		}
		fmt.Fprintf(os.Stderr, "HARNESS: replay diverged: expected %s, worker %s\n", rp.Class, died)
		return 2
	}
	if rs.Err != "" {
		fmt.Fprintln(os.Stderr, "HARNESS:", rs.Err)
		return 2
	}
	for _, f := range rs.Findings {
		if f.Class == rp.Class {
			same := true
			if len(rp.Hashes) == len(rs.Obs) {
				for i := range rs.Obs {
					if rs.Obs[i].LogHash != rp.Hashes[i] {
						same = false
					}
				}
			}
			fmt.Printf("replay: reproduced %s: %s\n", f.Class, shorten(f.Detail, 400))
			if len(rp.Hashes) == len(rs.Obs) {
				fmt.Printf("replay: event log hashes identical to the recorded ones: %v\n", same)
			}
			for i, o := range rs.Obs {
				fmt.Printf("--- observation %d (%d steps, tape %v)\n", i, o.Steps, o.Tape)
				for _, l := range o.Log {
					fmt.Println("   ", l)
				}
			}
			fmt.Printf("VIOLATION property=%s replay=%s\n", rp.Property, path)
			return 1
		}
	}
	fmt.Printf("replay: the recorded violation (%s) did NOT reproduce; findings now: %d\n", rp.Class, len(rs.Findings))
	return 0
}

func wantedProbes(prop string) []string {
	switch prop {
	case "C06":
		return []string{"nested-lexer", "nested-lexer-depth>=2", "join", "cancel-closed-by-parser", "cancel-closed-by-lexer"}
	case "C08":
		return []string{"nested-lexer"}
	}
	return nil
}

func ruleFor(prop string) string {
	switch prop {
	case "C06":
		return "cases: curated inputs + seeded generator (valid programs, mutants, parser-error-then-lexer-error, reader faults, bufio readers, arithmetic with several faults, $(( )) words, token strings); each case is run under parser-first, lexer-first and N seeded schedules; a case is non-trivial if at least one of its runs contained a scheduling decision (two or more goroutines parked at once); distinct = distinct case key (hash of the explicit case)"
	}
	return props.RuleFor(prop)
}

// exhaustiveSpaces reports which finite sub-spaces the run enumerated completely.
func exhaustiveSpaces(prop, tier string, lanes int, byKind map[string]int) map[string]interface{} {
	out := map[string]interface{}{}
	for name, size := range props.ExhaustiveSpaces(prop, tier) {
		covered := byKind[name] / lanes
		out[name] = map[string]interface{}{"size": size, "covered_per_lane": covered, "complete": covered >= size}
	}
	return out
}

// ---------------------------------------------------------------- race lane (C06, lane R1)

type raceReport struct {
	Idx    int
	Procs  int
	Report string
	Kind   string
}

var raceBin = envOr("VERIF_RACE_BIN", filepath.Join(root, ".build", "race.test"))

// raceRes: per case index, the hash of the result each race-lane process (GOMAXPROCS value) obtained.
var raceRes = struct {
	sync.Mutex
	m map[int]map[int]string
}{m: map[int]map[int]string{}}

func runRaceProc(seed uint64, n, shard, nsh, only, procs, count int) (reports []raceReport, cases int, harness string) {
	job := fmt.Sprintf(`{"seed":%d,"n":%d,"shard":%d,"nshards":%d,"only":%d}`, seed, n, shard, nsh, only)
	cmd := exec.Command(raceBin, "-test.run", "^TestRaceLane$", "-test.timeout", "0", "-test.count", strconv.Itoa(count))
	cwd := filepath.Join(root, ".build", "cwd")
	os.MkdirAll(cwd, 0o755)
	cmd.Dir = cwd
	cmd.Env = []string{"PATH=/usr/bin:/bin", "HOME=/nonexistent", "GODEBUG=panicnil=1", "GORACE=halt_on_error=0 exitcode=0", fmt.Sprintf("GOMAXPROCS=%d", procs), "VERIF_RACE_JOB=" + job}
	out, err := cmd.CombinedOutput()
	text := string(out)
	cur := -1
	lines := strings.Split(text, "\n")
	for i := 0; i < len(lines); i++ {
		l := lines[i]
		switch {
		case strings.HasPrefix(l, "CASE "):
			cur, _ = strconv.Atoi(strings.TrimSpace(l[5:]))
			cases++
		case strings.HasPrefix(l, "WARNING: DATA RACE"):
			j := i + 1
			for j < len(lines) && !strings.HasPrefix(lines[j], "==================") {
				j++
			}
			block := strings.Join(lines[i:j], "\n")
			if strings.Contains(block, "github.com/hattya/go.sh/") {
				reports = append(reports, raceReport{Idx: cur, Procs: procs, Report: block})
			}
			i = j
		case strings.HasPrefix(l, "RES "):
			var idx int
			var h string
			if _, e := fmt.Sscanf(l, "RES %d %s", &idx, &h); e == nil {
				raceRes.Lock()
				if raceRes.m[idx] == nil {
					raceRes.m[idx] = map[int]string{}
				}
				if idx == -2 {
					// the burst runs in every process: key it by shard as well
					raceRes.m[idx][procs*100+shard] = h
				} else {
					raceRes.m[idx][procs] = h
				}
				raceRes.Unlock()
			}
		case strings.HasPrefix(l, "DIFF "):
			reports = append(reports, raceReport{Idx: cur, Procs: procs, Report: "same arguments, different results under the real scheduler: " + l[5:], Kind: "result-differs-real-scheduler"})
		case strings.HasPrefix(l, "HANG"):
			harness = fmt.Sprintf("race lane: case %d did not finish within 20 s", cur)
		}
	}
	if err != nil && harness == "" && !strings.Contains(text, "DONE ") {
		harness = "race lane process failed: " + err.Error() + ": " + lastLines(text, 6)
	}
	return
}

type raceSummary struct {
	Cases   int
	Procs   []int
	Reports []raceReport
	Harness []string
	WallS   float64
}

func raceLane(tier string, seed uint64) raceSummary {
	start := time.Now()
	n := 1500
	if tier == "thorough" {
		n = 20000
	}
	var sum raceSummary
	sum.Procs = []int{1, 2, 16}
	var mu sync.Mutex
	var wg sync.WaitGroup
	const nsh = 5
	for _, procs := range sum.Procs {
		for sh := 0; sh < nsh; sh++ {
			wg.Add(1)
			go func(procs, sh int) {
				defer wg.Done()
				rs, cases, h := runRaceProc(seed, n, sh, nsh, -1, procs, 1)
				mu.Lock()
				sum.Reports = append(sum.Reports, rs...)
				sum.Cases += cases
				if h != "" {
					sum.Harness = append(sum.Harness, h)
				}
				mu.Unlock()
			}(procs, sh)
		}
	}
	wg.Wait()
	// the same case in processes with other GOMAXPROCS values: the result is a function of the arguments alone
	raceRes.Lock()
	for idx, byProc := range raceRes.m {
		seen := map[string][]int{}
		for p, h := range byProc {
			seen[h] = append(seen[h], p)
		}
		if len(seen) > 1 {
			var parts []string
			for h, ps := range seen {
				sort.Ints(ps)
				parts = append(parts, fmt.Sprintf("%s in processes %v", h, ps))
			}
			sort.Strings(parts)
			sum.Reports = append(sum.Reports, raceReport{Idx: idx, Procs: 0, Kind: "result-differs-real-scheduler",
				Report: "same arguments, different results in processes running at different GOMAXPROCS values (result hashes; for the burst the process key is GOMAXPROCS*100+shard): " + strings.Join(parts, "; ")})
		}
	}
	raceRes.m = map[int]map[int]string{}
	raceRes.Unlock()
	sort.Slice(sum.Reports, func(i, j int) bool {
		if sum.Reports[i].Idx != sum.Reports[j].Idx {
			return sum.Reports[i].Idx < sum.Reports[j].Idx
		}
		return sum.Reports[i].Procs < sum.Reports[j].Procs
	})
	sum.WallS = time.Since(start).Seconds()
	return sum
}

func raceEvidence(prop string, r raceSummary) interface{} {
	if prop != "C06" {
		return "not applicable to this property"
	}
	return map[string]interface{}{
		"kind":            "R1: -race build, real Go scheduler at GOMAXPROCS 1/2/16, verifYield hooks used only for timing perturbation; race detector reports and result differences between three executions of the same case are violations; supplementary, not replayable",
		"gomaxprocs":      r.Procs,
		"case_executions": r.Cases,
		"reports":         len(r.Reports),
		"wall_s":          r.WallS,
	}
}

func raceClass(r raceReport) string {
	if r.Kind != "" {
		return r.Kind
	}
	return "data-race"
}
