// Package racelane is the supplementary race lane of C06 (DESIGN.md §3.9, lane R1):
// the same cases as the simulation lane, executed by the real Go scheduler in a
// -race build, with the verifYield hooks used only to perturb timing. A report
// of the race detector is always a true positive; silence is weak evidence.
package racelane

import (
	"encoding/json"
	"fmt"
	"io"
	"os"
	"runtime"
	"strings"
	"sync"
	"testing"
	"time"

	"github.com/hattya/go.sh/ast"
	"github.com/hattya/go.sh/interp"
	"github.com/hattya/go.sh/parser"
	"github.com/hattya/go.sh/printer"

	"verifsim/gosim"
	"verifsim/props"
)

type Job struct {
	Seed  uint64 `json:"seed"`
	N     int    `json:"n"`
	Shard int    `json:"shard"`
	NSh   int    `json:"nshards"`
	Only  int    `json:"only"` // >=0: run just this case index (replay)
}

// perturb yields the processor a time-derived number of times. It shares no
// memory with anything, so it adds no happens-before edge that could hide a race.
func perturb(point int, _ interface{}) int {
	n := int(time.Now().UnixNano()>>4) % 4
	for i := 0; i < n; i++ {
		runtime.Gosched()
	}
	if n == 3 && point%2 == 0 {
		time.Sleep(time.Microsecond)
	}
	return 0
}

func TestRaceLane(t *testing.T) {
	js := os.Getenv("VERIF_RACE_JOB")
	if js == "" {
		t.Skip("not started by the driver")
	}
	var job Job
	if err := json.Unmarshal([]byte(js), &job); err != nil {
		fmt.Fprintln(os.Stderr, "HARNESS: bad job:", err)
		os.Exit(2)
	}
	parser.VerifHook = perturb
	interp.VerifHook = perturb
	p := props.Lookup("C06")
	ran := 0
	if job.Only < 0 {
		coldStartBurst()
	}
	for idx := job.Shard; idx < job.N; idx += job.NSh {
		if job.Only >= 0 && idx != job.Only {
			continue
		}
		c, ok := p.Gen(job.Seed, "quick", idx)
		if !ok {
			continue
		}
		fmt.Fprintf(os.Stderr, "CASE %d\n", idx)
		// the same arguments three times under the real scheduler: the results must be identical
		first := runCase(c)
		// (the driver compares this line across the processes running at other GOMAXPROCS values)
		fmt.Fprintf(os.Stderr, "RES %d %016x\n", idx, gosim.MixStr(0, first))
		for rep := 0; rep < 2; rep++ {
			if again := runCase(c); again != first {
				fmt.Fprintf(os.Stderr, "DIFF %d %q vs %q\n", idx, clip(first), clip(again))
				break
			}
		}
		ran++
	}
	fmt.Fprintf(os.Stderr, "DONE %d\n", ran)
}

func clip(s string) string {
	if len(s) > 300 {
		return s[:300] + "…"
	}
	return s
}

func runCase(c *props.Case) (result string) {
	done := make(chan struct{})
	go func() {
		defer close(done)
		defer func() {
			if e := recover(); e != nil {
				result = fmt.Sprint("panic: ", e)
			}
		}()
		switch c.Kind {
		case "eval":
			env := interp.NewExecEnv("sim")
			for _, kv := range c.Vars {
				env.Set(kv[0], kv[1])
			}
			n, err := env.Eval(c.Src)
			x, _ := env.Get("x")
			y, _ := env.Get("y")
			result = fmt.Sprintf("%d %v x=%q y=%q", n, err, x.Value, y.Value)
		case "eval2":
			var res [2]string
			var wg sync.WaitGroup
			for i, e := range []string{c.Src, c.Src2} {
				wg.Add(1)
				go func(i int, e string) {
					defer wg.Done()
					defer func() {
						if x := recover(); x != nil {
							res[i] = fmt.Sprint("panic: ", x)
						}
					}()
					res[i] = props.SoloEval(c, e)
				}(i, e)
			}
			wg.Wait()
			result = res[0] + "\n=====\n" + res[1]
			if solo := props.SoloEval(c, c.Src) + "\n=====\n" + props.SoloEval(c, c.Src2); solo != result {
				result = "CONCURRENT-DIFFERS-FROM-SOLO " + result
				fmt.Fprintf(os.Stderr, "DIFF -1 concurrent evaluators interfere: %q\n", clip(result))
			}
		case "parse2":
			// two independent callers on two goroutines; each must get what it gets alone
			var res [2]string
			var wg sync.WaitGroup
			for i, src := range []string{c.Src, c.Src2} {
				wg.Add(1)
				go func(i int, src string) {
					defer wg.Done()
					defer func() {
						if e := recover(); e != nil {
							res[i] = fmt.Sprint("panic: ", e)
						}
					}()
					res[i] = props.SoloDump(src)
				}(i, src)
			}
			wg.Wait()
			result = res[0] + "\n=====\n" + res[1]
			if solo := props.SoloDump(c.Src) + "\n=====\n" + props.SoloDump(c.Src2); solo != result {
				result = "CONCURRENT-DIFFERS-FROM-SOLO " + result
				fmt.Fprintf(os.Stderr, "DIFF -1 concurrent callers interfere: %q\n", clip(result))
			}
		case "expand":
			env := interp.NewExecEnv("sim")
			for _, kv := range c.Vars {
				env.Set(kv[0], kv[1])
			}
			cmd, _, err := parser.ParseCommand("w", ": "+c.Src)
			if err != nil {
				return
			}
			if cc, ok := cmd.(*ast.Cmd); ok {
				if sc, ok := cc.Expr.(*ast.SimpleCmd); ok && len(sc.Args) == 2 {
					f, err := env.Expand(sc.Args[1], 0)
					x, _ := env.Get("x")
					result = fmt.Sprintf("%q %v x=%q", f, err, x.Value)
				}
			}
		default:
			var src interface{}
			switch c.Reader.Kind {
			case "string":
				src = c.Src
			case "bytes":
				src = []byte(c.Src)
			case "reader":
				src = gosim.NewSimByteReader(nil, c.Src, c.Reader)
			default:
				src = gosim.NewSimReader(nil, c.Src, c.Reader)
			}
			cmds, comments, err := parser.ParseCommands(nil, "sim", src)
			// touch the results the way a caller would
			pos := -1
			if rs, ok := src.(*gosim.SimReader); ok {
				pos = rs.Pos()
			}
			result = fmt.Sprintf("%s %s %v pos=%d", props.Dump(cmds, 0), props.Dump(comments, 0), err, pos)
			// a second call on the same reader right away: a lexer left behind by the first one would race with it
			if rs, ok := src.(*gosim.SimReader); ok && rs.Pos() < len(c.Src) {
				parser.ParseCommands(nil, "sim", src)
			}
		}
	}()
	// 20 s of this process's own time (gosim.CPUShare): a starved process is not a hung one
	var eff time.Duration
	begin := time.Now()
	for waiting := true; waiting; {
		select {
		case <-done:
			waiting = false
		case <-time.After(time.Second):
			runtime.LockOSThread()
			eff += time.Duration(float64(time.Second) * gosim.CPUShare())
			runtime.UnlockOSThread()
			if eff > 20*time.Second || time.Since(begin) > 15*time.Minute {
				fmt.Fprintf(os.Stderr, "HANG\n")
				os.Exit(3)
			}
		}
	}
	return result
}

// plainReader hides every method but Read.
type plainReader struct{ r io.Reader }

func (p *plainReader) Read(b []byte) (int, error) { return p.r.Read(b) }

// coldStartBurst: the very first thing a fresh process does is to let eight independent callers use
// the library at the same time on inputs that touch many constructs, so that anything initialised
// lazily on first use or kept in package-level state (tables, caches, counters, memos) is used
// concurrently. Every result is compared with the result of the same call made alone afterwards.
func coldStartBurst() {
	fmt.Fprintf(os.Stderr, "CASE -2\n")
	nest := strings.Repeat("$(", 40) + "a" + strings.Repeat(")", 40)
	progs := []string{
		"f() { cat <<E | while read x; do case $x in a) b;; esac; done; }\nbody $y $(z) `w`\nE\n",
		"g() ( if a; then b; elif c; then d; else e; fi )\n",
		"for i in a b; do until x; do y; done; done 2>&1 >>f <<-X\n\tq\n\tX\n",
		"break() { a; }\n", "x=1 y=$((x+08)) cmd \"${z:-$(a)}\" 'q' \\n # c\n", "h () { (( n++ )); } && ! k | l &\n",
		"echo " + nest + "\n", "a | | $(", "cat <<E\n" + nest + "\nE\n",
	}
	exprs := []string{"(x = 1) + y + 1", "z + 2", "1/0", "x++ + ++x", "y ? 08 : 1"}
	// a small directory tree for pathname expansion
	for d := 0; d < 10; d++ {
		os.MkdirAll(fmt.Sprintf("d%d", d), 0o755)
		for f := 0; f < 30; f++ {
			os.WriteFile(fmt.Sprintf("d%d/f%d", d, f), nil, 0o644)
		}
	}
	// (nothing of the library is called before the first concurrent phase: the callers meet every first-use path together)
	wordSrc := []string{"${V%%X*}", "${V#a?}", "${W##*/}", "${V%b*}", "${V%%Y*}", "${W#/?}", "~root/x", "~nobody", "~daemon/y", "*/*", "d?/f1*", "$((n+1))", "d[0-4]/f2?",
		"$X", "$X $X", "${@#p}", "${@%x}", "\"${@##p?}\"", "${*%%?x}", "$-", "\"$-\" $#", "$0$!"}
	// one alias table shared (read-only, as far as the callers are concerned) by all callers; values with two trailing blanks
	sharedEnv := &interp.ExecEnv{Aliases: map[string]string{"ll": "ls -l  ", "l2": "ll \t ", "b": "c  "}}
	// ~name for every login name of the machine: each name is new to the process once, at a different moment for each caller
	if b, err := os.ReadFile("/etc/passwd"); err == nil {
		for _, l := range strings.Split(string(b), "\n") {
			if i := strings.IndexByte(l, ':'); i > 0 && !strings.ContainsAny(l[:i], " $`\\\"'") {
				wordSrc = append(wordSrc, "~"+l[:i])
			}
		}
	}
	const G = 8
	one := func(g int) []string {
		var out []string
		// the special parameters, first thing in every caller: a value computed once per process on first use
		// ($$, $0, ...) is computed by all callers together
		env0 := interp.NewExecEnv("sim")
		for _, n := range []string{"$", "0", "!", "?", "#", "-"} {
			v, set := env0.Get(n)
			if n == "$" {
				// the value differs from process to process; results are compared across processes
				v.Value = fmt.Sprint(v.Value == fmt.Sprint(os.Getpid()))
			}
			out = append(out, fmt.Sprint(n, v.Value, set))
		}
		var words []ast.Word
		for _, w := range wordSrc {
			if cmd, _, err := parser.ParseCommand("w", ": "+w); err == nil {
				words = append(words, cmd.(*ast.Cmd).Expr.(*ast.SimpleCmd).Args[1])
			}
		}
		tenv := interp.NewExecEnv("sim")
		for i := range words {
			if w := wordSrc[(i+g*5)%len(words)]; strings.HasPrefix(w, "~") {
				f, err := tenv.Expand(words[(i+g*5)%len(words)], 0)
				out = append(out, fmt.Sprintf("%q %v", f, err))
			}
		}
		for i := range progs {
			out = append(out, props.SoloDump(progs[(i+g)%len(progs)]))
			// the same from a plain io.Reader
			cmds, comments, err := parser.ParseCommands(nil, "sim", &plainReader{strings.NewReader(progs[(i+g)%len(progs)])})
			out = append(out, fmt.Sprintf("%s %s %v", props.Dump(cmds, 0), props.Dump(comments, 0), err))
		}
		// many short parses from plain readers (with and without a final newline): whatever the library keeps per
		// source or per call between calls is used by all callers at once
		for i := 0; i < 300; i++ {
			text := fmt.Sprintf("echo %d %d | cat <<E%s", g, i, []string{"", "\n", "\nb\nE\n", "\nb\nE"}[i%4])
			cmds, _, err := parser.ParseCommands(nil, "sim", &plainReader{strings.NewReader(text)})
			out = append(out, fmt.Sprintf("%d %v", len(cmds), err))
		}
		// the same alias TEXT in every caller's own table; []byte sources; one table shared by all callers
		own := &interp.ExecEnv{Aliases: map[string]string{"ll": "ls -l -a -b -c -e -f -i -k -n -p", "l2": "ll  ", "b": "c"}}
		for i := 0; i < 200; i++ {
			text := fmt.Sprintf("ll g%d i%d c f g h k m o q s\n", g, i)
			var src interface{} = text
			if i%2 == 1 {
				src = []byte(text)
			}
			e := own
			if i%4 >= 2 {
				e = sharedEnv
			}
			cmds, _, err := parser.ParseCommands(e, "sim", src)
			out = append(out, fmt.Sprintf("%s %v", props.Dump(cmds, 0), err))
		}
		// printing with different Configs at the same time
		if cmds, _, err := parser.ParseCommands(nil, "sim", "if a; then\n b\n while c; do\n  d\n  { e\n   f; }\n done\nelse\n case x in\n a)\n  g;;\n esac\nfi\n"); err == nil {
			for i := 0; i < 40; i++ {
				var b strings.Builder
				cfg := printer.Config{Indent: []printer.Style{printer.Tab, printer.Space}[g%2], Width: 2 + g%3}
				for _, c := range cmds {
					cfg.Fprint(&b, c)
				}
				out = append(out, b.String())
			}
		}
		env := interp.NewExecEnv("sim", "p1x", "p2x", "p3x", "p4x", "p5x", "p6x", "p7x", "p8x", "p9x", "p10x", "p11x", "p12x", "p13x")
		env.Opts = []interp.Option{interp.XTrace | interp.Verbose, interp.NoUnset, interp.ErrExit | interp.NoGlob, interp.AllExport | interp.XTrace}[g%4]
		for rep := 0; rep < 200; rep++ {
			v, set := env.Get("-")
			out = append(out, fmt.Sprint(v.Value, set))
		}
		env.Set("y", []string{"abc", "2"}[g%2])
		env.Set("z", "zz")
		for i := range exprs {
			n, err := env.Eval(exprs[(i+g)%len(exprs)])
			out = append(out, fmt.Sprint(n, err))
		}
		env.Set("V", []string{"aXbYbZ", "abXcYd", "aaXX"}[g%3])
		env.Set("W", "/a/b/c")
		env.Set("X", "d0/f1* lit d?/f29 d[5-9]/f? z")
		env.Set("n", fmt.Sprint(g))
		for rep := 0; rep < 30; rep++ {
			for i := range words {
				f, err := env.Expand(words[(i+g)%len(words)], 0)
				out = append(out, fmt.Sprintf("%q %v", f, err))
			}
		}
		return out
	}
	var all []string
	for phase := 0; phase < 2; phase++ {
		if phase == 1 {
			// a history between the two concurrent phases: prints to writers that fail (whatever the printer keeps between calls)
			if cmds, _, err := parser.ParseCommands(nil, "w", "if a; then\n b <<E\nx\nE\nfi\n"); err == nil && len(cmds) == 1 {
				for _, k := range []int{0, 3, 9} {
					printer.Fprint(&gosim.SimWriter{Plan: gosim.WriterPlan{Kind: "fail", After: k}}, cmds[0])
				}
			}
		}
		res := make([][]string, G)
		var wg sync.WaitGroup
		start := make(chan struct{})
		for g := 0; g < G; g++ {
			wg.Add(1)
			go func(g int) {
				defer wg.Done()
				defer func() {
					if e := recover(); e != nil {
						res[g] = []string{fmt.Sprint("panic: ", e)}
					}
				}()
				<-start
				res[g] = one(g)
			}(g)
		}
		close(start)
		wg.Wait()
		for g := 0; g < G; g++ {
			solo := one(g)
			all = append(all, solo...)
			if len(solo) != len(res[g]) {
				fmt.Fprintf(os.Stderr, "DIFF -2 caller %d of the concurrent burst (phase %d): %d results, alone %d (%q)\n", g, phase, len(res[g]), len(solo), clip(fmt.Sprint(res[g])))
				continue
			}
			for i := range solo {
				if solo[i] != res[g][i] {
					fmt.Fprintf(os.Stderr, "DIFF -2 caller %d of the concurrent burst (phase %d), result %d: %q, alone: %q\n", g, phase, i, clip(res[g][i]), clip(solo[i]))
					break
				}
			}
		}
	}
	// what the callers get alone must not depend on the process either (GOMAXPROCS): compared by the driver
	fmt.Fprintf(os.Stderr, "RES -2 %016x\n", gosim.MixStr(0, strings.Join(all, "\x00")))
}
