module verifsim

go 1.26.8

require github.com/hattya/go.sh v0.0.0

replace github.com/hattya/go.sh => /repo
