package props

import (
	"fmt"
	"sort"
	"strings"
	"testing"

	"github.com/hattya/go.sh/ast"
	"github.com/hattya/go.sh/interp"
	"github.com/hattya/go.sh/parser"

	"verifsim/gosim"
)

// newEnv builds an ExecEnv without touching the process environment.
func newEnv(c *Case) *interp.ExecEnv {
	args := c.Args
	if len(args) == 0 {
		args = []string{"sim"}
	}
	e2 := interp.NewExecEnv(args[0], args[1:]...)
	var names []string
	e2.Walk(func(v interp.Var) { names = append(names, v.Name) })
	for _, n := range names {
		e2.Unset(n)
	}
	e2.Opts = interp.Option(c.Opts)
	for _, kv := range c.Vars {
		e2.Set(kv[0], kv[1])
	}
	return e2
}

func dumpEnv(env *interp.ExecEnv) string {
	var vs []string
	env.Walk(func(v interp.Var) {
		vs = append(vs, fmt.Sprintf("%s=%q", v.Name, v.Value))
	})
	sort.Strings(vs)
	return "vars{" + strings.Join(vs, " ") + "}"
}

// RunEval executes kind "eval" (ExecEnv.Eval(Src)) or "expand" (parse `: <Src>`
// and Expand its argument word with Mode).
func RunEval(t *testing.T, c *Case, s Sched, keepLog bool) *Obs {
	sim := MakeSim(s, keepLog)
	o := &Obs{Sched: s, Extra: map[string]string{}}
	o.Sched.Policy = sim.Policy.Name()
	if s.UseTape {
		o.Sched.Policy = "tape"
	}
	var parts []string
	body := func() {
		env := newEnv(c)
		if c.Bystander {
			// earlier, unrelated calls on the same environment that change nothing in the store: the measured
			// call's result is a function of its arguments, not of what the environment was used for before
			env.Eval("6*7")
			env.Eval("1/0")
			if cmd, _, err := parser.ParseCommand("w", ": $((40+2))${none:-d}"); err == nil {
				env.Expand(cmd.(*ast.Cmd).Expr.(*ast.SimpleCmd).Args[1], 0)
			}
			sim.Yield(gosim.PCallerMark)
		}
		switch c.Kind {
		case "eval":
			n, err := env.Eval(c.Src)
			parts = append(parts, fmt.Sprintf("n=%d %s %s", n, DumpErr(err), dumpEnv(env)))
			o.ErrNil = err == nil
			if err != nil {
				o.ErrText = err.Error()
			}
		case "expand":
			cmd, _, err := parser.ParseCommand("w", ": "+c.Src)
			if err != nil {
				parts = append(parts, "parse "+DumpErr(err))
				o.ErrText = "parse: " + err.Error()
				return
			}
			var word ast.Word
			if cc, ok := cmd.(*ast.Cmd); ok {
				if sc, ok := cc.Expr.(*ast.SimpleCmd); ok && len(sc.Args) == 2 {
					word = sc.Args[1]
				}
			}
			if word == nil {
				parts = append(parts, "not-a-single-word")
				return
			}
			sim.Yield(gosim.PCallerMark)
			before := Dump(word, 0)
			fields, err := env.Expand(word, interp.ExpMode(c.Mode))
			parts = append(parts, fmt.Sprintf("fields=%q %s %s", fields, DumpErr(err), dumpEnv(env)))
			if after := Dump(word, 0); after != before {
				parts = append(parts, "AST-MODIFIED")
			}
			o.ErrNil = err == nil
			if err != nil {
				o.ErrText = err.Error()
			}
		}
	}
	o.Res = gosim.RunInBubble(t, sim, body)
	o.Parts = parts
	o.Dump = joinParts(parts)
	if c.Bystander {
		o.Extra["solo"] = SoloCase(t, c)
	}
	return o
}

// RunEval2 executes kind "eval2": two independent callers evaluate two expressions on two
// separate environments at the same time (two caller tasks under one scheduler).
func RunEval2(t *testing.T, c *Case, s Sched, keepLog bool) *Obs {
	sim := MakeSim(s, keepLog)
	o := &Obs{Sched: s, Extra: map[string]string{}}
	o.Sched.Policy = sim.Policy.Name()
	if s.UseTape {
		o.Sched.Policy = "tape"
	}
	parts := make([]string, 2)
	mk := func(i int, expr string) func() {
		return func() { parts[i] = SoloEval(c, expr) }
	}
	o.Res = gosim.RunInBubble(t, sim, mk(0, c.Src), mk(1, c.Src2))
	o.Parts = parts
	o.Dump = joinParts(parts)
	return o
}

// SoloCase runs an eval/expand case once on a fresh environment (first schedule) without the earlier
// unrelated calls: the reference for "a function of its arguments alone".
func SoloCase(t *testing.T, c *Case) string {
	cc := *c
	cc.Bystander = false
	return RunEval(t, &cc, Sched{PolicyIdx: 0}, false).Dump
}

// SoloEval evaluates expr on a fresh environment built from the case and dumps value, error and store.
func SoloEval(c *Case, expr string) string {
	env := newEnv(c)
	n, err := env.Eval(expr)
	return fmt.Sprintf("n=%d %s %s", n, DumpErr(err), dumpEnv(env))
}
