package props

import (
	"fmt"
	"strings"
	"testing"
	"unicode/utf8"

	"github.com/hattya/go.sh/ast"
	"github.com/hattya/go.sh/parser"

	"verifsim/gen"
	"verifsim/gosim"
)

// C10 — a failing source reader is reported as that failure, never as success.
type c10 struct{}

func init() {
	gosim.Sentinels["wraps-parser-error"] = fmt.Errorf("include lib.sh: %w", parser.Error{Name: "lib.sh", Pos: ast.NewPos(3, 7), Msg: "syntax error: unexpected EOF"})

	Register(c10{})
	rules["C10"] = "a case is (program, reader variant) with variant in {scanner/persistent, scanner/transient, scanner-multi-unread/persistent, bufio-reader/persistent(+data+err, chunked), bufio-reader/transient, bufio-reader/zero-progress}; for each case EVERY single-fault position is enumerated (every rune start 0..len for the RuneScanner, every byte offset 0..len for the io.Reader) and each position is run under parser-first, lexer-first and a seeded schedule. Programs: curated, seeded generated programs, mutants (invalid) and short token strings. Oracle: if the injected failure was delivered before the call returned (io.Reader behind bufio: if the fault offset lies inside what the fault-free run of the same program consumed) then err != nil and errors.Is(err, injected) (io.ErrNoProgress for zero-progress), and the call returns. evaluations = simulated runs (one per program x variant x position x schedule); non-trivial = the fault was actually delivered in at least one position; distinct = distinct (program, variant)"
}

func (c10) ID() string { return "C10" }

const c10Variants = 12

var c10Programs = []string{
	"a && b\n", "a || b\n", "case x in a) b;; esac\n", "a >>f\n", "a >|f\n", "a <<E\nb\nE\n", "a <<-E\n\tb\nE\n", "a <>f\n", "a <&3\n", "a >&2\n", "((x))\n", "$((1))\n",
	"a; b & c\n", "if a; then b; fi\n", "for x in a b; do c; done\n", "while a; do b; done\n", "f() { a; }\n", "( a )\n", "{ a; }\n", "a | b\n", "! a\n",
	"a& `!`\n", "a; `!` b\n", "a >f `)`\n", "x | `a | | b`\n", "a&& $(!) b\n", "a <f \"`b |`\"\n", "a; b `c ;;`\n", "a |`fi`\n",
	// a lexer-side syntax error with more text behind it: a fault in what the lexer still reads afterwards
	"for \"a\" b; do c; done\n", "for $x in a; do b; done\n", "for 1x y z\n", "for a=b c d\n", "break() { a; } more text\n", "a; exit () b c\n", "a <<\"E\nF\" b c\nbody\n", "a ${x!y} more text\n", "a ${#x:-1} b c\n", "a; ) more text\n",
	"echo \"$x ${y:-z} $(a b) `c`\" 'q' \\n\n", "x=1 y=$(a) cmd\n", "a # comment\n", "a \\\n b\n", "a <<E; b\n$x\nE\n", "é日本 \"é\"\n",
}

func (c10) counts(tier string) int {
	if tier == "thorough" {
		return 2500
	}
	return 220
}

func (p c10) NumCases(tier string) int {
	return (len(c10Programs) + p.counts(tier)) * c10Variants
}

func (p c10) Gen(seed uint64, tier string, idx int) (*Case, bool) {
	pi, v := idx/c10Variants, idx%c10Variants
	c := &Case{Kind: "parse"}
	if pi < len(c10Programs) {
		c.Src = c10Programs[pi]
		c.Note = "curated"
	} else {
		src := gen.FromSeed(gosim.Mix(seed, 0xC10, uint64(pi)))
		o := gen.FullOpts()
		o.MaxDepth = 2
		switch src.Intn(7) {
		case 6:
			// an operator (whose look-ahead read may fail) followed by a substitution with a syntax error
			g := gen.NewG(src, o)
			pre := strings.TrimRight(g.CompleteCommand(false).Text, "\n")
			if len(pre) > 120 {
				pre = "a b"
			}
			bad := src.Pick([]string{"!", ")", "a | | b", "fi", "a ;;", "| a", "&& b", "a &&"})
			open, close := "`", "`"
			if src.Chance(1, 2) {
				open, close = "$(", ")"
			}
			c.Src = pre + src.Pick([]string{"& ", "; ", " && ", " | ", " >f ", " <f ", " >>f ", "|"}) + src.Pick([]string{"", "c "}) + open + bad + close + "\n"
			c.Note = "operator-then-bad-substitution"
		case 0:
			n := 1 + src.Intn(4)
			for i := 0; i < n; i++ {
				c.Src += gen.Alphabet[src.Intn(len(gen.Alphabet))]
				if src.Chance(1, 3) {
					c.Src += " "
				}
			}
			c.Note = "token-string"
		case 1:
			g := gen.NewG(src, o)
			c.Src = gen.Mutate(src, g.CompleteCommand(false).Text)
			c.Note = "mutant"
		default:
			g := gen.NewG(src, o)
			c.Src = g.CompleteCommand(false).Text
			c.Note = "program"
		}
		if len(c.Src) > 240 {
			// keep the enumeration cheap: regenerate smaller
			o.MaxDepth = 1
			g := gen.NewG(src, o)
			c.Src = g.CompleteCommand(false).Text
			if len(c.Src) > 240 {
				c.Src = "echo " + c.Src[:40] + "\n"
				c.Note = "truncated"
			}
		}
	}
	if pi%4 == 3 && pi >= len(c10Programs) {
		// a quarter of the generated programs are parsed with an alias table: faults strike while alias text is pending
		c.Aliases = gen.AliasTable(gen.FromSeed(gosim.Mix(seed, 0xA11A5, uint64(pi))))
	}
	c.Reader = c10Variant(v, uint64(idx))
	// the shape of the injected error rotates per program: plain, wrapping io.EOF, wrapping io.ErrUnexpectedEOF
	if c.Reader.FaultKind != "zero-progress" && c.Reader.Kind != "pipe" {
		c.Reader.ErrKind = []string{"", "wraps-eof", "timeout", "unexpected-eof", "uncomparable", ""}[pi%6]
		if pi%7 == 3 {
			// a well-known sentinel of the standard library, unwrapped
			c.Reader.ErrKind = gosim.SentinelKinds[(pi/7)%len(gosim.SentinelKinds)]
		}
		if pi%9 == 5 {
			// a read error whose chain holds one of the library's own error values
			c.Reader.ErrKind = "wraps-parser-error"
		}
	}
	if pi%5 == 2 {
		c.SrcName = SrcNames[(pi/5)%len(SrcNames)]
	}
	return c, true
}

func c10Variant(v int, salt uint64) gosim.ReaderPlan {
	switch v {
	case 11:
		// the read end of an io.Pipe, closed under the parser after k bytes (Read then fails with io.ErrClosedPipe)
		return gosim.ReaderPlan{Kind: "pipe", FaultAt: -2, FaultKind: "persistent", ErrKind: "sentinel-closed-pipe"}
	case 0:
		return gosim.ReaderPlan{Kind: "scanner", FaultAt: -2, FaultKind: "persistent"}
	case 1:
		return gosim.ReaderPlan{Kind: "scanner", FaultAt: -2, FaultKind: "transient"}
	case 2:
		return gosim.ReaderPlan{Kind: "scanner", FaultAt: -2, FaultKind: "persistent", Unread: "multi"}
	case 3:
		return gosim.ReaderPlan{Kind: "reader", FaultAt: -2, FaultKind: "persistent", Chunk: []int{0, 1, 2, -1}[salt/6%4], ChunkSeed: salt, DataErr: salt/24%2 == 0}
	case 4:
		return gosim.ReaderPlan{Kind: "reader", FaultAt: -2, FaultKind: "transient", Chunk: []int{0, 1, 3, -1}[salt/6%4], ChunkSeed: salt, DataErr: salt/24%2 == 1}
	case 5:
		return gosim.ReaderPlan{Kind: "reader", FaultAt: -2, FaultKind: "zero-progress", Chunk: []int{0, 1}[salt/6%2]}
	case 6:
		// count-based: the n-th ReadRune call fails wherever the reader stands (e.g. the re-read after UnreadRune)
		return gosim.ReaderPlan{Kind: "scanner", FaultAt: -1, FaultCall: -2, FaultKind: "persistent"}
	case 7:
		return gosim.ReaderPlan{Kind: "scanner", FaultAt: -1, FaultCall: -2, FaultKind: "transient", Unread: []string{"", "multi"}[salt/8%2]}
	case 8:
		// one failure, after which the source reports end of input
		return gosim.ReaderPlan{Kind: "scanner", FaultAt: -2, FaultKind: "once-then-eof"}
	case 10:
		// the failing ReadRune delivers the rune together with the error
		return gosim.ReaderPlan{Kind: "scanner", FaultAt: -2, FaultKind: []string{"persistent", "once-then-eof"}[salt/11%2], RuneWithErr: true}
	default:
		// an io.Reader that is also an io.WriterTo (like *os.File)
		return gosim.ReaderPlan{Kind: "reader+writerto", FaultAt: -2, FaultKind: "persistent", Chunk: []int{0, 3}[salt/10%2]}
	}
}

func (c10) Plan(seed uint64, tier string, idx int, c *Case) []Sched {
	s := []Sched{{PolicyIdx: 0}, {PolicyIdx: 1}, {PolicyIdx: 2 + idx%7, Seed: gosim.Mix(seed, 0x5C4ED, uint64(idx))}}
	if tier == "thorough" {
		s = append(s, Sched{PolicyIdx: 9 + idx%5, Seed: gosim.Mix(seed, 0x5C4EE, uint64(idx))})
	}
	return s
}

// c10Sub is the observation for one fault position.
type c10Sub struct {
	K   int
	Obs *Obs
}

type c10Live struct {
	Subs    []c10Sub
	Reads   int  // ReadRune calls of the fault-free run
	Extent  int  // bytes the fault-free run consumed
	ReadEOF bool // the fault-free run read EOF
	FreeErr bool
}

func (p c10) positions(c *Case) []int {
	var ks []int
	if c.Reader.Kind == "scanner" {
		for i := 0; i < len(c.Src); {
			ks = append(ks, i)
			_, n := utf8.DecodeRuneInString(c.Src[i:])
			i += n
		}
		ks = append(ks, len(c.Src))
	} else {
		for i := 0; i <= len(c.Src); i++ {
			ks = append(ks, i)
		}
	}
	return ks
}

func (p c10) Run(t *testing.T, c *Case, s Sched, keepLog bool) *Obs {
	if c.Reader.FaultAt != -2 && c.Reader.FaultCall != -2 {
		o := RunParse(t, c, s, keepLog)
		k := c.Reader.FaultAt
		if c.Reader.FaultCall > 0 {
			k = c.Reader.FaultCall
		}
		live := &c10Live{Subs: []c10Sub{{K: k, Obs: o}}}
		p.reference(t, c, s, live)
		o2 := *o
		o2.Live = live
		o2.Faults = map[string]int{}
		return &o2
	}
	agg := &Obs{Sched: s, Faults: map[string]int{}, Extra: map[string]string{}}
	live := &c10Live{}
	p.reference(t, c, s, live)
	h := uint64(0)
	kindName := c.Reader.Kind + "/" + c.Reader.FaultKind
	if c.Reader.ErrKind != "" {
		kindName += "/" + c.Reader.ErrKind
	}
	if c.Reader.DataErr {
		kindName += "+data"
	}
	if c.Reader.Unread == "multi" {
		kindName += "/multi-unread"
	}
	positions := p.positions(c)
	if c.Reader.FaultCall == -2 {
		positions = nil
		for n := 1; n <= live.Reads+1; n++ {
			positions = append(positions, n)
		}
		kindName = c.Reader.Kind + "/nth-call/" + c.Reader.FaultKind
	}
	for _, k := range positions {
		cc := *c
		if c.Reader.FaultCall == -2 {
			cc.Reader.FaultCall = k
		} else {
			cc.Reader.FaultAt = k
		}
		o := RunParse(t, &cc, s, false)
		live.Subs = append(live.Subs, c10Sub{K: k, Obs: o})
		agg.Res.Steps += o.Res.Steps
		agg.Res.IOOps += o.Res.IOOps
		agg.Res.Events += o.Res.Events
		h = gosim.Mix(h, o.Res.ILHash)
		if len(o.Res.Tape) > 0 {
			agg.Res.Tape = o.Res.Tape
		}
		if o.Fired {
			agg.Faults[kindName]++
		}
		if o.FiredBeforeReturn {
			agg.Fired = true
		}
		for k, v := range o.Res.Probes {
			if agg.Res.Probes == nil {
				agg.Res.Probes = map[string]int{}
			}
			agg.Res.Probes[k] += v
		}
		agg.Sched.Policy = o.Sched.Policy
	}
	agg.Res.ILHash = h
	if agg.Res.Probes == nil {
		agg.Res.Probes = map[string]int{}
	}
	agg.Res.Probes["fault-positions-enumerated"] += len(live.Subs)
	agg.Res.Probes["single-fault-spaces-enumerated-completely"]++
	agg.SubRuns = len(live.Subs) + 1
	agg.Live = live
	agg.Dump = fmt.Sprintf("enumerated %d fault positions", len(live.Subs))
	return agg
}

// reference runs the program fault-free through a SimReader to learn how far the parser reads.
func (c10) reference(t *testing.T, c *Case, s Sched, live *c10Live) {
	rc := *c
	rc.Reader = gosim.ReaderPlan{Kind: "scanner", FaultAt: -1}
	o := RunParse(t, &rc, s, false)
	live.Extent = o.PosAfterDrain
	live.Reads = o.ReaderReads
	live.ReadEOF = o.ReaderEOFs > 0
	live.FreeErr = !o.ErrNil
}

func (p c10) Judge(c *Case, obs []*Obs) []Finding {
	var fs []Finding
	seen := map[string]bool{}
	add := func(f Finding) {
		if !seen[f.Class] {
			seen[f.Class] = true
			fs = append(fs, f)
		}
	}
	for i, agg := range obs {
		live, _ := agg.Live.(*c10Live)
		if live == nil {
			continue
		}
		for _, sub := range live.Subs {
			o := sub.Obs
			narrow := *c
			if c.Reader.FaultCall != 0 {
				narrow.Reader.FaultCall = sub.K
			} else {
				narrow.Reader.FaultAt = sub.K
			}
			for _, f := range simFindings(o, i, gosim.VDeadlock, gosim.VStepBudget, gosim.VReaderBudget, gosim.VCallerPanic) {
				f.Narrow = &narrow
				add(f)
			}
			must := false
			switch c.Reader.Kind {
			case "scanner":
				must = o.FiredBeforeReturn
			default:
				// behind bufio: the parser sees the failure iff it reads at or beyond the fault offset
				must = o.Fired && (sub.K < live.Extent || (sub.K == live.Extent && live.ReadEOF))
			}
			if !must {
				continue
			}
			want := "the injected read error"
			ok := o.ErrInjected
			if c.Reader.FaultKind == "zero-progress" {
				want, ok = "io.ErrNoProgress", o.ErrNoProgress
			}
			switch {
			case o.ErrNil:
				add(Finding{Class: "read-error-lost", Obs: []int{i}, Narrow: &narrow,
					Detail: fmt.Sprintf("reader failed at offset %d (%s) but ParseCommands returned a nil error", sub.K, c.Reader.FaultKind)})
			case !ok:
				add(Finding{Class: "read-error-replaced", Obs: []int{i}, Narrow: &narrow,
					Detail: fmt.Sprintf("reader failed at offset %d (%s) but the returned error is not %s: %q", sub.K, c.Reader.FaultKind, want, o.ErrText)})
			}
		}
	}
	return fs
}

func (c10) Nontrivial(c *Case, obs []*Obs) bool {
	for _, o := range obs {
		if o.Fired {
			return true
		}
	}
	return false
}
