package props

import (
	"fmt"
	"os"
	"sort"
	"testing"

	"verifsim/gosim"
)

func TestExplore(t *testing.T) {
	if err := gosim.CheckHooks(); err != nil {
		t.Fatal(err)
	}
	inputs := []string{"a b\n", "a | | $(", "cat <<E\nbody\nE\n", "echo $(a $(b c) d) e\n", "a | | b", "cat <<A <<B\n1\nA\n2\nB\n", "if a; then b; fi\n", "a # c\nb\n"}
	if s := os.Getenv("SRC"); s != "" {
		inputs = []string{s}
	}
	for _, in := range inputs {
		classes := map[string]int{}
		var hashes []uint64
		for seed := 0; seed < 40; seed++ {
			c := &Case{Kind: "parse", Src: in, Reader: gosim.ReaderPlan{Kind: "scanner", FaultAt: -1}}
			s := Sched{PolicyIdx: seed, Seed: uint64(seed)}
			o := RunParse(t, c, s, false)
			o2 := RunParse(t, c, s, false)
			if o.Res.LogHash != o2.Res.LogHash {
				t.Errorf("nondeterministic: %q seed %d", in, seed)
			}
			// replay from tape
			o3 := RunParse(t, c, Sched{UseTape: true, Tape: o.Res.Tape}, false)
			if o.Res.LogHash != o3.Res.LogHash {
				t.Errorf("tape replay differs: %q seed %d", in, seed)
			}
			hashes = append(hashes, o.Res.LogHash)
			var vs []string
			for _, v := range o.Res.Violations {
				vs = append(vs, v.Class)
			}
			sort.Strings(vs)
			key := fmt.Sprintf("%s pos=%v/%d viol=%v bubble=%q", o.ErrText, o.PosAtReturn, o.PosAfterDrain, uniq(vs), o.Res.BubbleErr)
			classes[key]++
		}
		fmt.Printf("== %q\n", in)
		var ks []string
		for k := range classes {
			ks = append(ks, k)
		}
		sort.Strings(ks)
		for _, k := range ks {
			fmt.Printf("   %3d  %s\n", classes[k], k)
		}
	}
}

func uniq(a []string) []string {
	var r []string
	for i, s := range a {
		if i == 0 || a[i-1] != s {
			r = append(r, s)
		}
	}
	return r
}
