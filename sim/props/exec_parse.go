package props

import (
	"bufio"
	"bytes"
	"errors"
	"fmt"
	"io"
	"strings"
	"testing"

	"github.com/hattya/go.sh/ast"
	"github.com/hattya/go.sh/interp"
	"github.com/hattya/go.sh/parser"

	"verifsim/gosim"
)

// ParseLive keeps the live results of the calls of a run for property oracles.
type ParseLive struct {
	Cmds     [][]ast.Command
	Comments [][]*ast.Comment
	Errs     []error
}

type posReader interface{ Pos() int }

// lenPos derives the read position of a standard-library reader from its remaining length.
type lenPos struct {
	total int
	rest  func() int
}

func (l lenPos) Pos() int { return l.total - l.rest() }

// RunParse executes kind "parse" (one ParseCommands call) or "stream"
// (successive calls on one shared reader until it is exhausted).
func RunParse(t *testing.T, c *Case, s Sched, keepLog bool) *Obs {
	sim := MakeSim(s, keepLog)
	if b := 48 * len(c.Src); b > sim.StepBudget {
		sim.StepBudget = b // the budget is linear in the input (very long flat inputs)
	}
	o := &Obs{Sched: s, Extra: map[string]string{}}
	o.Sched.Policy = sim.Policy.Name()
	if s.UseTape {
		o.Sched.Policy = "tape"
	}
	live := &ParseLive{}
	o.Live = live

	var env *interp.ExecEnv
	if len(c.Aliases) > 0 {
		env = &interp.ExecEnv{Aliases: map[string]string{}}
		for _, kv := range c.Aliases {
			env.Aliases[kv[0]] = kv[1]
		}
	}

	var src interface{}
	var pr posReader
	var sr *gosim.SimReader
	var br *gosim.SimByteReader
	var callerBuf *bufio.Reader
	var pipeFeed, pipeStop func()
	pipeFired := false
	switch c.Reader.Kind {
	case "string":
		src = c.Src
	case "bytes":
		src = []byte(c.Src)
	case "reader":
		br = gosim.NewSimByteReader(sim, c.Src, c.Reader)
		src, pr = br, br
	case "reader+writerto":
		br = gosim.NewSimByteReader(sim, c.Src, c.Reader)
		src, pr = gosim.SimWriterToReader{SimByteReader: br}, br
	case "strings.Reader":
		r := strings.NewReader(c.Src)
		src, pr = r, lenPos{len(c.Src), r.Len}
	case "bytes.Reader":
		r := bytes.NewReader([]byte(c.Src))
		src, pr = r, lenPos{len(c.Src), r.Len}
	case "bytes.Buffer":
		r := bytes.NewBufferString(c.Src)
		src, pr = r, lenPos{len(c.Src), r.Len}
	case "bufio.Reader":
		// the caller's own bufio.Reader over the whole text: what it has handed out is total minus (buffered + unread)
		under := strings.NewReader(c.Src)
		r := bufio.NewReaderSize(under, 16)
		src, pr = r, lenPos{len(c.Src), func() int { return r.Buffered() + under.Len() }}
		callerBuf = r
	case "pipe":
		// the read end of an io.Pipe; a feeder goroutine writes the text (up to the fault offset) and then closes
		// the READ end under the parser (fault) or the write end (clean end of input). Everything is created
		// inside the bubble (channels made outside it do not block durably).
		pipeFeed = func() {
			pr, pw := io.Pipe()
			src = pr
			k := c.Reader.FaultAt
			feedDone := make(chan struct{})
			go func() {
				defer close(feedDone)
				data := c.Src
				if k >= 0 && k < len(data) {
					data = data[:k]
				}
				if len(data) > 0 {
					if _, err := pw.Write([]byte(data)); err != nil {
						return
					}
				}
				if k >= 0 {
					pipeFired = true
					pr.Close()
				} else {
					pw.Close()
				}
			}()
			pipeStop = func() {
				pr.Close()
				<-feedDone
			}
		}
	case "invalid-int":
		src = 42 // not a supported source type: ParseCommands must fail cleanly
	case "invalid-nil":
		src = nil
	default: // scanner
		sr = gosim.NewSimReader(sim, c.Src, c.Reader)
		src, pr = sr, sr
	}

	maxCalls := 1
	if c.Kind == "stream" {
		maxCalls = len(c.CmdEnds) + 4
		if maxCalls < 8 {
			maxCalls = 8
		}
	}

	body := func() {
		if pipeFeed != nil {
			pipeFeed()
			defer func() { pipeStop() }()
		}
		for call := 0; call < maxCalls; call++ {
			if call > 0 {
				if pr == nil || pr.Pos() >= len(c.Src) {
					break
				}
				sim.Yield(gosim.PCallerMark)
			}
			cmds, comments, err := parser.ParseCommands(env, c.srcName(), src)
			live.Cmds = append(live.Cmds, cmds)
			live.Comments = append(live.Comments, comments)
			live.Errs = append(live.Errs, err)
			if pr != nil {
				o.PosAtReturn = append(o.PosAtReturn, pr.Pos())
			}
			if err != nil {
				break
			}
		}
		if c.Bystander && pr != nil {
			// an unrelated call by the same caller afterwards, from a plain io.Reader: whatever the library keeps
			// between calls, the first call's source must not be touched by it
			sim.Yield(gosim.PCallerMark)
			parser.ParseCommands(nil, "bystander", &plainReader{strings.NewReader("zz <<E | $(y)\nb\nE\n")})
		}
	}
	o.Res = gosim.RunInBubble(t, sim, body)

	lineBase := 0
	for i := range live.Errs {
		_ = lineBase
		part := fmt.Sprintf("cmds=%s\ncomments=%s\n%s", Dump(live.Cmds[i], 0), Dump(live.Comments[i], 0), DumpErr(live.Errs[i]))
		o.Parts = append(o.Parts, part)
	}
	o.Dump = joinParts(o.Parts)
	if n := len(live.Errs); n > 0 {
		err := live.Errs[n-1]
		o.ErrNil = err == nil
		if err != nil {
			o.ErrText = err.Error()
			o.ErrInjected = errors.Is(err, gosim.InjectedErr(c.Reader.ErrKind))
			o.ErrNoProgress = errors.Is(err, io.ErrNoProgress)
		}
	}
	if pr != nil {
		o.PosAfterDrain = pr.Pos()
	}
	if callerBuf != nil && len(o.PosAtReturn) > 0 {
		// what the caller's own buffered reader still delivers is exactly the text behind the position at return
		at := o.PosAtReturn[len(o.PosAtReturn)-1]
		rest, _ := io.ReadAll(callerBuf)
		if at < 0 || at > len(c.Src) || string(rest) != c.Src[at:] {
			o.Extra["caller-reader-rest"] = fmt.Sprintf("the caller's bufio.Reader delivers %q after the calls, expected the text from offset %d on (%q)", shortStr(string(rest), 60), at, shortStr(c.Src[min(max(at, 0), len(c.Src)):], 60))
			o.PosAfterDrain = -1
		}
	}
	if (sr != nil && sr.Fired > 0) || (br != nil && br.Fired > 0) {
		k := c.Reader.Kind + "/" + c.Reader.FaultKind
		if c.Reader.FaultCall != 0 {
			k = c.Reader.Kind + "/nth-call/" + c.Reader.FaultKind
		}
		if c.Reader.DataErr {
			k += "+data"
		}
		if c.Reader.ErrKind != "" {
			k += "/" + c.Reader.ErrKind
		}
		o.Faults = map[string]int{k: 1}
	}
	if pipeFired {
		o.Fired = true
		o.Faults = map[string]int{"pipe/read-end-closed": 1}
	}
	if sr != nil {
		o.Fired, o.FiredBeforeReturn = sr.Fired > 0, sr.FiredRet
		o.ReaderOps, o.ReaderEOFs, o.UnreadAfterUnread = sr.Ops, sr.EOFs, sr.UnreadAfterUnread
		o.ReaderReads = sr.Reads
	}
	if br != nil {
		o.Fired, o.FiredBeforeReturn = br.Fired > 0, br.FiredRet
		o.ReaderOps, o.ReaderEOFs = br.Ops, br.EOFs
	}
	return o
}

// ParseSummary: the schedule-independent observable of a parse run, i.e. what
// C06 calls "the values returned (commands, comments, error, amount of input consumed)".
func ParseSummary(o *Obs, withConsumption bool) string {
	var b strings.Builder
	b.WriteString(o.Dump)
	if withConsumption {
		fmt.Fprintf(&b, "\npos-at-return=%v pos-after-drain=%d", o.PosAtReturn, o.PosAfterDrain)
	}
	return b.String()
}

// PlainParseDump parses the case without the simulator (hooks installed but nil:
// the real Go scheduler runs the goroutines) and returns the same canonical dump
// RunParse produces. Used by the hook-transparency self-test.
func PlainParseDump(c *Case) string {
	var env *interp.ExecEnv
	if len(c.Aliases) > 0 {
		env = &interp.ExecEnv{Aliases: map[string]string{}}
		for _, kv := range c.Aliases {
			env.Aliases[kv[0]] = kv[1]
		}
	}
	var src interface{}
	switch c.Reader.Kind {
	case "string":
		src = c.Src
	case "bytes":
		src = []byte(c.Src)
	case "reader":
		src = gosim.NewSimByteReader(nil, c.Src, c.Reader)
	case "invalid-int":
		src = 42
	case "invalid-nil":
		src = nil
	default:
		src = gosim.NewSimReader(nil, c.Src, c.Reader)
	}
	cmds, comments, err := parser.ParseCommands(env, c.srcName(), src)
	return fmt.Sprintf("cmds=%s\ncomments=%s\n%s", Dump(cmds, 0), Dump(comments, 0), DumpErr(err))
}

// RunParse2 executes kind "parse2": two independent callers parse two independent sources at
// the same time (two caller tasks under one scheduler). Nothing is shared between the calls
// except package-level state of the library, if there is any; each result must therefore equal
// the result of the same call made alone.
func RunParse2(t *testing.T, c *Case, s Sched, keepLog bool) *Obs {
	sim := MakeSim(s, keepLog)
	o := &Obs{Sched: s, Extra: map[string]string{}}
	o.Sched.Policy = sim.Policy.Name()
	if s.UseTape {
		o.Sched.Policy = "tape"
	}
	parts := make([]string, 2)
	mk := func(i int, src string) func() {
		return func() {
			cc := *c
			cc.Src = src
			r := gosim.NewSimReader(sim, src, gosim.ReaderPlan{Kind: "scanner", FaultAt: -1})
			cmds, comments, err := parser.ParseCommands(nil, "sim", r)
			parts[i] = fmt.Sprintf("cmds=%s\ncomments=%s\n%s\npos=%d", Dump(cmds, 0), Dump(comments, 0), DumpErr(err), r.Pos())
		}
	}
	o.Res = gosim.RunInBubble(t, sim, mk(0, c.Src), mk(1, c.Src2))
	o.Parts = parts
	o.Dump = joinParts(parts)
	return o
}

// plainReader hides every method but Read.
type plainReader struct{ r io.Reader }

func (p *plainReader) Read(b []byte) (int, error) { return p.r.Read(b) }

// SoloDump is what RunParse2 must produce for one of its callers: the same call made alone.
func SoloDump(src string) string {
	r := gosim.NewSimReader(nil, src, gosim.ReaderPlan{Kind: "scanner", FaultAt: -1})
	cmds, comments, err := parser.ParseCommands(nil, "sim", r)
	return fmt.Sprintf("cmds=%s\ncomments=%s\n%s\npos=%d", Dump(cmds, 0), Dump(comments, 0), DumpErr(err), r.Pos())
}
