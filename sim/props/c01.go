package props

import (
	"strings"
	"testing"

	"verifsim/gen"
	"verifsim/gosim"
)

// C01 — parsing is total: any input yields a result or an error, never a crash or hang.
type c01 struct{}

func init() {
	Register(c01{})
	rules["C01"] = "cases: curated inputs; ALL token strings of length 1..3 over the 38-symbol shell alphabet (quick: each with one source kind and alias decision chosen by hash; thorough: crossed with all 4 source kinds and {no aliases, seeded alias table}); token strings of length 4 sampled (thorough); seeded generated programs and their mutants with seeded source kind / alias table. Every case runs under parser-first, lexer-first and seeded schedules, in two worker lanes (GODEBUG=panicnil=0 and =1). Oracle: the call returns (no deadlock, step budget, reader no-progress loop, caller panic), and the worker process survives (a panic in any goroutine kills it and is attributed to the case). non-trivial = the input is not accepted silently: it produced an error or at least one command; distinct = distinct explicit case"
}

func (c01) ID() string { return "C01" }

func init() {
	exhaustive["C01"] = func(tier string) map[string]int {
		l := c01{}.layout(tier)
		return map[string]int{"token-string<=3": l.tok * l.tokMul, "curated": l.cur * 8}
	}
}

var c01Kinds = []string{"string", "bytes", "reader", "scanner"}

func tokenSpace(maxLen int) int {
	n := 0
	for l := 1; l <= maxLen; l++ {
		n += gen.NumTokenStrings(l)
	}
	return n
}

type c01Layout struct {
	cur, tok, tokMul, tok4, gen, sweep, huge int
}

// c01Huge: very long FLAT inputs (no nesting): one construct repeated until the text is around a megabyte.
// Work and stack must grow at most linearly with them.
const c01HugeTemplates = 7

func c01HugeInput(t int) string {
	rep := strings.Repeat
	switch t {
	case 0:
		return "echo " + rep("a ", 450000) + "\n"
	case 1:
		return rep("x=1 ", 200000) + "cmd\n"
	case 2:
		return "cat <<E\n" + rep("line $x text $(y) more\n", 3000) + "E\n"
	case 3:
		return "echo " + rep("$x", 150000) + "\n"
	case 4:
		return "a " + rep(">f ", 150000) + "\n"
	case 5:
		return "case x in " + rep("a) b;; ", 60000) + "esac\n"
	default:
		return "cat <<-E\n" + rep("\t\\$5 each `z` text\n", 3000) + "\tE\n"
	}
}

// paddings swept around the bufio buffer sizes
func c01Padding(i int) int {
	const span = 96 // 4096-72 .. 4096+23, then the same around 8192
	if i < span {
		return 4096 - 72 + i
	}
	return 8192 - 72 + (i - span)
}

const c01Paddings = 192

func (c01) layout(tier string) c01Layout {
	l := c01Layout{cur: len(gen.Curated), tok: tokenSpace(3), tokMul: 1, gen: 4000, sweep: gen.BoundaryTemplates * c01Paddings, huge: c01HugeTemplates}
	if tier == "thorough" {
		l.huge = c01HugeTemplates * 4
		l.tokMul = 8 // 4 source kinds x {no aliases, alias table}
		l.tok4 = gen.NumTokenStrings(4) / 8
		l.gen = 200000
	}
	return l
}

func (p c01) NumCases(tier string) int {
	l := p.layout(tier)
	return l.cur*8 + l.tok*l.tokMul + l.tok4 + l.sweep + l.huge + l.gen
}

func tokenStringAt(i int) string {
	for n := 1; ; n++ {
		c := gen.NumTokenStrings(n)
		if i < c {
			return gen.TokenString(n, i)
		}
		i -= c
	}
}

func setKind(c *Case, kind string, src *gen.Source) {
	c.Reader = gosim.ReaderPlan{Kind: kind, FaultAt: -1}
	switch kind {
	case "reader":
		c.Reader.Chunk = []int{0, 1, 3, -1}[src.Intn(4)]
		c.Reader.ChunkSeed = uint64(src.Intn(1 << 20))
	case "scanner":
		if src.Chance(1, 3) {
			c.Reader.Unread = "multi"
		}
		if src.Chance(1, 4) {
			c.Reader.EOFStale = true
		}
	}
}

func (p c01) Gen(seed uint64, tier string, idx int) (*Case, bool) {
	l := p.layout(tier)
	src := gen.FromSeed(gosim.Mix(seed, 0xC01, uint64(idx)))
	c := &Case{Kind: "parse"}
	if idx < l.cur*8 {
		c.Src = gen.Curated[idx/8]
		setKind(c, c01Kinds[idx%4], src)
		if idx%8 >= 4 {
			c.Aliases = gen.AliasTable(src)
		}
		c.Note = "curated"
		return c, true
	}
	idx -= l.cur * 8
	if idx < l.tok*l.tokMul {
		s := tokenStringAt(idx / l.tokMul)
		c.Src = s
		c.Note = "token-string<=3"
		if l.tokMul == 8 {
			setKind(c, c01Kinds[idx%4], src)
			if idx%8 >= 4 {
				c.Aliases = gen.AliasTable(src)
			}
		} else {
			h := gosim.MixStr(seed, s)
			setKind(c, c01Kinds[h%4], src)
			if (h>>8)%4 == 0 {
				c.Aliases = gen.AliasTable(src)
			}
		}
		return c, true
	}
	idx -= l.tok * l.tokMul
	if idx < l.tok4 {
		// sampled length-4 strings: a seeded stride through the space
		n := gen.NumTokenStrings(4)
		i := int((uint64(idx)*8 + gosim.Mix(seed, uint64(idx))%8) % uint64(n))
		c.Src = gen.TokenString(4, i)
		setKind(c, c01Kinds[src.Intn(4)], src)
		if src.Chance(1, 4) {
			c.Aliases = gen.AliasTable(src)
		}
		c.Note = "token-string=4"
		return c, true
	}
	idx -= l.tok4
	if idx < l.sweep {
		c.Src = gen.BoundarySweep(idx/c01Paddings, c01Padding(idx%c01Paddings))
		setKind(c, c01Kinds[idx%4], src)
		c.Note = "boundary-sweep"
		return c, true
	}
	idx -= l.sweep
	if idx < l.huge {
		c.Src = c01HugeInput(idx % c01HugeTemplates)
		setKind(c, c01Kinds[idx/c01HugeTemplates%4], src)
		c.Note = "huge-flat"
		return c, true
	}
	idx -= l.huge
	// generated programs and mutants
	o := gen.FullOpts()
	o.BigWords = true
	o.HDMultiLine = true
	g := gen.NewG(src, o)
	n := 1 + src.Intn(3)
	for _, it := range g.Stream(n) {
		c.Src += it.Text
	}
	c.Note = "program"
	if src.Chance(2, 3) {
		k := 1 + src.Intn(3)
		for i := 0; i < k; i++ {
			c.Src = gen.Mutate(src, c.Src)
		}
		c.Note = "mutant"
	}
	setKind(c, c01Kinds[src.Intn(4)], src)
	if src.Chance(1, 3) {
		c.Aliases = gen.AliasTable(src)
	}
	if (c.Reader.Kind == "reader" || c.Reader.Kind == "scanner") && src.Chance(1, 5) {
		// a source that fails part-way is a source too: whatever is returned (C10 judges that), the call
		// must not crash, hang or panic
		c.Reader.FaultAt = src.Intn(len([]rune(c.Src)) + 1)
		c.Reader.FaultKind = []string{"persistent", "transient", "once-then-eof"}[src.Intn(3)]
		c.Reader.ErrKind = append([]string{"", "wraps-eof", "timeout", "unexpected-eof", "uncomparable"}, gosim.SentinelKinds...)[src.Intn(5+len(gosim.SentinelKinds))]
		c.Note += "+read-fault"
	}
	if src.Chance(1, 6) {
		c.SrcName = SrcNames[src.Intn(len(SrcNames))]
	}
	c.GenTape = nil // text-level shrinking is used for C01
	return c, true
}

func (c01) Plan(seed uint64, tier string, idx int, c *Case) []Sched {
	if c.Note == "huge-flat" {
		return []Sched{{PolicyIdx: idx % 2}}
	}
	s := []Sched{{PolicyIdx: 0}, {PolicyIdx: 1}, {PolicyIdx: 2 + idx%7, Seed: gosim.Mix(seed, 0x5C4ED, uint64(idx))}}
	if tier == "thorough" && c.Note != "token-string<=3" {
		s = append(s, Sched{PolicyIdx: 9 + idx%5, Seed: gosim.Mix(seed, 0x5C4EE, uint64(idx))})
	}
	return s
}

func (c01) Run(t *testing.T, c *Case, s Sched, keepLog bool) *Obs {
	return RunParse(t, c, s, keepLog)
}

func (c01) Judge(c *Case, obs []*Obs) []Finding {
	var fs []Finding
	seen := map[string]bool{}
	for i, o := range obs {
		for _, f := range simFindings(o, i, gosim.VDeadlock, gosim.VStepBudget, gosim.VReaderBudget, gosim.VCallerPanic) {
			if !seen[f.Class] {
				seen[f.Class] = true
				fs = append(fs, f)
			}
		}
	}
	return fs
}

func (c01) Nontrivial(c *Case, obs []*Obs) bool {
	for _, o := range obs {
		if !o.ErrNil {
			return true
		}
		if pl, ok := o.Live.(*ParseLive); ok && len(pl.Cmds) > 0 && len(pl.Cmds[0]) > 0 {
			return true
		}
	}
	return false
}
