package props

import (
	"fmt"
	"reflect"
	"sort"
	"strings"

	"github.com/hattya/go.sh/ast"
)

var posType = reflect.TypeOf(ast.Pos{})

// Dump renders any value (AST nodes in particular) canonically and completely:
// every field, including positions and separators, nil-ness of slices and
// pointers, and dynamic types. lineDelta is subtracted from every non-zero
// position's line (used to compare a command parsed from the middle of a
// stream with the same command parsed alone).
func Dump(v interface{}, lineDelta int) string {
	var b strings.Builder
	d := dumper{b: &b, delta: lineDelta, noPos: false}
	d.dump(reflect.ValueOf(v), 0)
	return b.String()
}

// DumpNoPos renders the structure without positions (for comparing a tree with
// its re-parse after printing).
func DumpNoPos(v interface{}) string {
	var b strings.Builder
	d := dumper{b: &b, noPos: true}
	d.dump(reflect.ValueOf(v), 0)
	return b.String()
}

type dumper struct {
	b     *strings.Builder
	delta int
	noPos bool
}

func (d *dumper) dump(v reflect.Value, depth int) {
	if depth > 200 {
		d.b.WriteString("<too deep>")
		return
	}
	if !v.IsValid() {
		d.b.WriteString("<nil>")
		return
	}
	if v.Type() == posType {
		if d.noPos {
			d.b.WriteString("@")
			return
		}
		line, col := v.Field(0).Int(), v.Field(1).Int()
		if line == 0 && col == 0 {
			d.b.WriteString("@0")
			return
		}
		fmt.Fprintf(d.b, "@%d:%d", line-int64(d.delta), col)
		return
	}
	switch v.Kind() {
	case reflect.Interface:
		if v.IsNil() {
			d.b.WriteString("<nil-iface>")
			return
		}
		d.dump(v.Elem(), depth+1)
	case reflect.Ptr:
		if v.IsNil() {
			fmt.Fprintf(d.b, "(*%s)nil", v.Type().Elem().Name())
			return
		}
		d.b.WriteString("&")
		d.dump(v.Elem(), depth+1)
	case reflect.Struct:
		d.b.WriteString(v.Type().Name())
		d.b.WriteString("{")
		for i := 0; i < v.NumField(); i++ {
			if i > 0 {
				d.b.WriteString(" ")
			}
			d.b.WriteString(v.Type().Field(i).Name)
			d.b.WriteString(":")
			d.dump(v.Field(i), depth+1)
		}
		d.b.WriteString("}")
	case reflect.Slice:
		if v.IsNil() {
			fmt.Fprintf(d.b, "%s(nil)", v.Type().String())
			return
		}
		fmt.Fprintf(d.b, "%s[", v.Type().String())
		for i := 0; i < v.Len(); i++ {
			if i > 0 {
				d.b.WriteString(", ")
			}
			d.dump(v.Index(i), depth+1)
		}
		d.b.WriteString("]")
	case reflect.Map:
		if v.IsNil() {
			fmt.Fprintf(d.b, "%s(nil)", v.Type().String())
			return
		}
		keys := v.MapKeys()
		strs := make([]string, len(keys))
		for i, k := range keys {
			var kb, vb strings.Builder
			(&dumper{b: &kb, delta: d.delta, noPos: d.noPos}).dump(k, depth+1)
			(&dumper{b: &vb, delta: d.delta, noPos: d.noPos}).dump(v.MapIndex(k), depth+1)
			strs[i] = kb.String() + "=>" + vb.String()
		}
		sort.Strings(strs)
		fmt.Fprintf(d.b, "%s{%s}", v.Type().String(), strings.Join(strs, ", "))
	case reflect.String:
		fmt.Fprintf(d.b, "%q", v.String())
	case reflect.Bool:
		fmt.Fprintf(d.b, "%v", v.Bool())
	case reflect.Int, reflect.Int8, reflect.Int16, reflect.Int32, reflect.Int64:
		fmt.Fprintf(d.b, "%d", v.Int())
	case reflect.Uint, reflect.Uint8, reflect.Uint16, reflect.Uint32, reflect.Uint64, reflect.Uintptr:
		fmt.Fprintf(d.b, "%d", v.Uint())
	default:
		fmt.Fprintf(d.b, "<%s>", v.Kind())
	}
}

// DumpErr renders an error value with its dynamic type.
func DumpErr(err error) string {
	if err == nil {
		return "err=nil"
	}
	return fmt.Sprintf("err=%T{%s}", err, err.Error())
}
