package props

import (
	"fmt"
	"strings"
	"testing"

	"verifsim/gen"
	"verifsim/gosim"
)

// C06 — results are schedule-independent; nothing races or keeps running after return.
type c06 struct{}

func init() { Register(c06{}) }

func (c06) ID() string { return "C06" }

// c06Pairs: independent calls run at the same time by two callers (kind parse2 / eval2).
var c06Pairs = [][3]string{
	{"parse2", "cat <<E <<'F'\n$x\nE\ny\nF\n", "f() { cat <<-X; }\n\tbody\n\tX\n"},
	{"parse2", "f() { a; }; g() { b; }\n", "h() ( c )\n"},
	{"parse2", "a | | $(", "cat <<E\nb\nE\n"},
	{"eval2", "(x = 1) + y + 1", "z + 2"},
	{"eval2", "y*2", "(x=3)+z"},
	{"eval2", "1/0", "x = 08, 1"},
}

var c06Expand = []string{
	"$((1+2))", "$((x=1))", "$(( (x = 1) + 08 + (y=2) + 1/0 ))", "a$((x = 08, 1))b", "\"$((1 1))\"", "$((x++ + ++y))$((1/0))", "${z:=$((x=5))}", "$((1))$((08))$((y=3))",
	"${x:-$((1/0))}", "$((  ))", "$(( @ ))", "$((x=y=3))$x$y",
}

func (c06) counts(tier string) (cur, ngen int) {
	cur = len(gen.Curated) + len(gen.ArithCurated) + len(c06Expand) + len(c06Pairs) + 2
	if tier == "thorough" {
		return cur, 60000
	}
	return cur, 3000
}

func (p c06) NumCases(tier string) int {
	a, b := p.counts(tier)
	return a + b
}

var lexErrTails = []string{"\"x", "'q", "$(", "${x", "${", "`a", "$((1", "<<E\nbody", "a <<E\n", "((1", "\"$(", "\"${x:-", "$(a \"", "x; \"y\nz"}
var parseErrMids = []string{" | | ", " ) ", " ;; ", " && && ", " } ", " fi ", "; ; ", " done ", " then ", "( ) ", " | & "}

func (p c06) Gen(seed uint64, tier string, idx int) (*Case, bool) {
	// curated short inputs: the COMPLETE schedule space is walked depth-first (capped)
	dfs := 400
	if tier == "thorough" {
		dfs = 20000
	}
	cur := gen.Curated
	if idx < len(cur) {
		c := &Case{Kind: "parse", Src: cur[idx], Reader: gosim.ReaderPlan{Kind: "scanner", FaultAt: -1}, Note: "curated", DFS: dfs}
		if len(c.Src) > 48 {
			c.DFS = 0 // long inputs (deep nesting, giant words): sampled schedules only
			c.Note = "curated-long"
		}
		if len(c.Src) > 3000 && tier != "thorough" {
			return nil, false // the very long ones (1100-deep nesting, 70 KB words) are C01's business; C06 runs them in the thorough tier
		}
		return c, true
	}
	idx -= len(cur)
	if idx < len(gen.ArithCurated) {
		return &Case{Kind: "eval", Src: gen.ArithCurated[idx], Vars: [][2]string{{"z", "5"}}, Note: "curated-eval", DFS: dfs, Bystander: idx%2 == 1}, true
	}
	idx -= len(gen.ArithCurated)
	if idx < len(c06Expand) {
		return &Case{Kind: "expand", Src: c06Expand[idx], Vars: [][2]string{{"y", "7"}}, Note: "curated-expand", DFS: dfs}, true
	}
	idx -= len(c06Expand)
	if idx < len(c06Pairs)+2 && idx >= len(c06Pairs) {
		// a source of an unsupported type: an error, and nothing left behind
		return &Case{Kind: "parse", Src: "a b\n", Reader: gosim.ReaderPlan{Kind: []string{"invalid-int", "invalid-nil"}[idx-len(c06Pairs)], FaultAt: -1}, Note: "invalid-source-type"}, true
	}
	if idx < len(c06Pairs) {
		pr := c06Pairs[idx]
		return &Case{Kind: pr[0], Src: pr[1], Src2: pr[2], Vars: [][2]string{{"y", "abc"}, {"z", "zz"}}, Note: "curated-two-callers", DFS: dfs / 2}, true
	}
	idx -= len(c06Pairs) + 2
	src := gen.FromSeed(gosim.Mix(seed, 0xC06, uint64(idx)))
	c := p.build(src)
	c.GenTape = src.Rec
	return c, true
}

func (p c06) Regen(tier string, c *Case, tape []uint32) *Case {
	src := gen.FromTape(tape)
	n := p.build(src)
	n.GenTape = src.Rec
	return n
}

func (c06) build(src *gen.Source) *Case {
	o := gen.FullOpts()
	o.MaxDepth = 3
	class := src.Intn(14)
	c := &Case{Kind: "parse", Reader: gosim.ReaderPlan{Kind: "scanner", FaultAt: -1}}
	if src.Chance(1, 4) {
		c.Reader.Unread = "multi"
	}
	prog := func() string {
		g := gen.NewG(src, o)
		it := g.CompleteCommand(false)
		return it.Text
	}
	switch {
	case class <= 2:
		c.Src = prog()
		if src.Chance(1, 2) {
			c.Src += "next_cmd arg\n"
		}
		c.Note = "valid"
	case class <= 4:
		c.Src = prog()
		n := 1 + src.Intn(2)
		for i := 0; i < n; i++ {
			c.Src = gen.Mutate(src, c.Src)
		}
		c.Note = "mutant"
	case class == 5 || class == 6:
		o.MaxDepth = 2
		pre := prog()
		if len(pre) > 0 && pre[len(pre)-1] == '\n' {
			pre = pre[:len(pre)-1]
		}
		c.Src = pre + src.Pick(parseErrMids) + src.Pick([]string{"", "b ", "c d "}) + src.Pick(lexErrTails)
		c.Note = "parser-error-then-lexer-error"
	case class == 7:
		c.Src = prog()
		if src.Chance(1, 2) {
			c.Src = gen.Mutate(src, c.Src)
		}
		c.Reader.FaultAt = src.Intn(len(c.Src) + 1)
		c.Reader.FaultKind = src.Pick([]string{"persistent", "transient"})
		if src.Chance(1, 2) {
			// bias: right behind an operator character, where the lexer is in the middle of a look-ahead
			var ks []int
			for i := 0; i < len(c.Src); i++ {
				if strings.IndexByte("&;|<>()$`", c.Src[i]) >= 0 {
					ks = append(ks, i+1)
				}
			}
			if len(ks) > 0 {
				c.Reader.FaultAt = ks[src.Intn(len(ks))]
			}
		}
		// align to a rune start
		for c.Reader.FaultAt > 0 && c.Reader.FaultAt < len(c.Src) && c.Src[c.Reader.FaultAt]&0xC0 == 0x80 {
			c.Reader.FaultAt--
		}
		c.Note = "reader-fault"
	case class == 8:
		c.Src = prog()
		if src.Chance(1, 2) {
			c.Src = gen.Mutate(src, c.Src)
		}
		c.Reader = gosim.ReaderPlan{Kind: "reader", FaultAt: -1, Chunk: []int{0, 1, 3, -1}[src.Intn(4)], ChunkSeed: uint64(src.Intn(1 << 20))}
		if src.Chance(1, 2) {
			c.Reader.FaultAt = src.Intn(len(c.Src) + 1)
			c.Reader.FaultKind = src.Pick([]string{"persistent", "transient"})
			c.Reader.DataErr = src.Chance(1, 2)
		}
		c.Note = "bufio-reader"
		if c.Reader.FaultAt < 0 && src.Chance(1, 3) {
			// the caller's own *bufio.Reader as the source
			c.Reader = gosim.ReaderPlan{Kind: "bufio.Reader", FaultAt: -1}
			c.Note = "caller-owned-bufio-reader"
		}
		c.Bystander = true
	case class == 12:
		// two independent callers at the same time (here-documents make the lexer use the printer)
		o.HDBias = true
		c = &Case{Kind: "parse2", Src: prog(), Src2: prog(), Note: "two-callers"}
		if src.Chance(1, 3) {
			c.Src2 = gen.Mutate(src, c.Src2)
		}
	case class == 13:
		// two independent evaluations at the same time, on separate environments
		c = &Case{Kind: "eval2", Src: gen.ArithExpr(src, 3), Src2: gen.ArithExpr(src, 3), Note: "two-evaluators"}
		c.Vars = [][2]string{{"y", src.Pick([]string{"2", "08", "", "abc", "0x10"})}, {"z", src.Pick([]string{"1", "zz", "09"})}}
	case class == 9:
		c = &Case{Kind: "eval", Src: gen.ArithExpr(src, 3), Note: "eval"}
		c.Vars = [][2]string{{"y", src.Pick([]string{"2", "08", "", "abc", "0x10"})}}
		c.Bystander = src.Chance(1, 2)
	case class == 10:
		c = &Case{Kind: "expand", Note: "expand", Bystander: src.Chance(1, 2)}
		n := 1 + src.Intn(3)
		for i := 0; i < n; i++ {
			switch src.Intn(4) {
			case 0:
				c.Src += src.Pick([]string{"a", "-", "$x", "${y}", "\"q\""})
			default:
				c.Src += "$((" + gen.ArithExpr(src, 2) + "))"
			}
		}
		c.Vars = [][2]string{{"y", src.Pick([]string{"2", "08", "", "abc"})}}
	default:
		// short token strings: dense in error paths
		n := 2 + src.Intn(4)
		for i := 0; i < n; i++ {
			c.Src += gen.Alphabet[src.Intn(len(gen.Alphabet))]
			if src.Chance(1, 3) {
				c.Src += " "
			}
		}
		c.Note = "token-string"
		c.DFS = 2000
	}
	if c.Kind == "parse" && src.Chance(1, 8) {
		c.SrcName = SrcNames[src.Intn(len(SrcNames))]
	}
	return c
}

func (c06) Plan(seed uint64, tier string, idx int, c *Case) []Sched {
	n := 6
	if tier == "thorough" {
		n = 30
	}
	s := []Sched{{PolicyIdx: 0}, {PolicyIdx: 1}}
	for i := 0; i < n; i++ {
		s = append(s, Sched{PolicyIdx: 2 + i, Seed: gosim.Mix(seed, 0x5C4ED, uint64(idx), uint64(i))})
	}
	return s
}

func (c06) Run(t *testing.T, c *Case, s Sched, keepLog bool) *Obs {
	switch c.Kind {
	case "eval", "expand":
		return RunEval(t, c, s, keepLog)
	case "parse2":
		return RunParse2(t, c, s, keepLog)
	case "eval2":
		return RunEval2(t, c, s, keepLog)
	}
	return RunParse(t, c, s, keepLog)
}

func (c06) Judge(c *Case, obs []*Obs) []Finding {
	var fs []Finding
	seen := map[string]bool{}
	add := func(f Finding) {
		if !seen[f.Class] {
			seen[f.Class] = true
			fs = append(fs, f)
		}
	}
	for i, o := range obs {
		for _, f := range simFindings(o, i, gosim.VDeadlock, gosim.VStepBudget, gosim.VReaderBudget, gosim.VCallerPanic,
			gosim.VAliveAtReturn, gosim.VOpAfterReturn, gosim.VLeak) {
			add(f)
		}
	}
	if c.Kind == "parse2" || c.Kind == "eval2" {
		solo := []string{SoloDump(c.Src), SoloDump(c.Src2)}
		if c.Kind == "eval2" {
			solo = []string{SoloEval(c, c.Src), SoloEval(c, c.Src2)}
		}
		for i, o := range obs {
			for k := 0; k < 2 && k < len(o.Parts); k++ {
				if o.Parts[k] != solo[k] {
					add(Finding{Class: "concurrent-callers-interfere", Obs: []int{i},
						Detail: fmt.Sprintf("caller %d, running at the same time as an independent call, got a result that differs from the same call made alone: %s", k, firstDiff(solo[k], o.Parts[k]))})
				}
			}
		}
	}
	if (c.Kind == "eval" || c.Kind == "expand") && c.Bystander {
		for i, o := range obs {
			if solo, ok := o.Extra["solo"]; ok && solo != o.Dump {
				add(Finding{Class: "hidden-state-between-calls", Obs: []int{i},
					Detail: fmt.Sprintf("the same call with the same store gives another result after unrelated earlier calls on that environment: %s", firstDiff(solo, o.Dump))})
			}
		}
	}
	if c.Kind == "parse" && c.Bystander {
		for i, o := range obs {
			if n := len(o.PosAtReturn); n > 0 && o.PosAfterDrain != o.PosAtReturn[n-1] {
				add(Finding{Class: "reader-touched-after-return", Obs: []int{i},
					Detail: fmt.Sprintf("the source reader stood at %d when the call returned and at %d after an unrelated later call %s", o.PosAtReturn[n-1], o.PosAfterDrain, o.Extra["caller-reader-rest"])})
			}
		}
	}
	if len(obs) < 2 {
		return fs
	}
	ref := obs[1]
	withPos := c.Kind == "parse" && (c.Reader.Kind == "scanner" || c.Reader.Kind == "")
	for i, o := range obs {
		if o == ref {
			continue
		}
		if o.Dump != ref.Dump {
			add(Finding{Class: "result-differs", Obs: []int{1, i},
				Detail: fmt.Sprintf("same arguments, different results under schedules %s and %s: %s", ref.Sched.Policy, o.Sched.Policy, firstDiff(ref.Dump, o.Dump))})
		} else if withPos && (fmt.Sprint(o.PosAtReturn) != fmt.Sprint(ref.PosAtReturn) || o.PosAfterDrain != ref.PosAfterDrain) {
			add(Finding{Class: "consumption-differs", Obs: []int{1, i},
				Detail: fmt.Sprintf("input consumed at return/after drain: %v/%d under %s vs %v/%d under %s", ref.PosAtReturn, ref.PosAfterDrain, ref.Sched.Policy, o.PosAtReturn, o.PosAfterDrain, o.Sched.Policy)})
		}
	}
	return fs
}

func (c06) Nontrivial(c *Case, obs []*Obs) bool {
	for _, o := range obs {
		if len(o.Res.Tape) > 0 {
			return true
		}
	}
	return false
}
