package props

import (
	"bufio"
	"bytes"
	"errors"
	"fmt"
	"io"
	"runtime"
	"strings"
	"testing"

	"github.com/hattya/go.sh/ast"
	"github.com/hattya/go.sh/parser"
	"github.com/hattya/go.sh/printer"

	"verifsim/gen"
	"verifsim/gosim"
)

// C18 — printing is an idempotent, deterministic normal form; the AST stays untouched;
// a failing writer is reported.
type c18 struct{}

func init() {
	Register(c18{})
	rules["C18"] = "programs: curated + seeded generated complete commands (incl. here-documents under then/do, multi-line forms, outputs larger than the 4096-byte bufio buffer). Fault-free lane: each program under ALL 256 Configs: print twice (same bytes), deep dump of the tree unchanged, re-parse of the output succeeds and prints to the same bytes. Fault lane: each program x 8 seeded Configs x writer kinds {fail-after-k, short-after-k (n<len, nil error), chunk-limited} with EVERY k in [0,L] when L<=512, else k in {0,1,4095,4096,4097,8191,8192,L-1,L} plus 32 seeded values: k<L => Fprint returns a non-nil error that errors.Is the injected error (io.ErrShortWrite for short), the bytes accepted are a prefix of the fault-free output, no panic, tree unchanged, a following fault-free print is unchanged; k>=L => nil error and exact output. The other node kinds Fprint accepts (the comments the program came with, one synthesized comment, word and word part) go to a writer failing after k bytes for every k < min(L,64): the injected error must come back. evaluations = Fprint calls; non-trivial = output of at least 2 lines or a writer fault actually fired; distinct = distinct (program, lane)"
}

func (c18) ID() string { return "C18" }

var c18Programs = []string{
	"a\n", "a; b\n", "( (a); b )\n", "( (a) )\n", "if a; then b; fi\n", "if a\nthen\nb <<E\nx\nE\nfi\n", "while a; do b <<E\nx\nE\ndone\n", "for x in a b; do c; done\n",
	"case x in a) b;; (c|d) e;; esac\n", "f() { a; }\n", "{ a; b; }\n", "a <<E | b <<F\n1\nE\n2\nF\n", "a && b || c\n", "! a | b\n", "x=1 y=2 cmd arg >f 2>&1 <in\n",
	"((x+1))\n", "a $(b; c) `d`\n", "a \"$x ${y:-z}\" 'q' \\n\n", "a &\n", "a; b &\n", "until a; do b; done\n", "if a; then b; elif c; then d; else e; fi\n", "a <<-E\n\tx\n\tE\n",
	"case x in\nesac\n", "a \\\n", "( a\nb )\n", "{\na\n}\n", "a # c\n", "if a; then\n  ( (b); c )\nfi\n", "$( (a); b )\n",
	"cat <<E | while a; do\n$((1 +\n2))\nE\n b\ndone\n", "cat <<E $((1 +\n2))\nx\nE\n", "a $(b\nc) <<E\nx $(d\ne) y\nE\n", "<<E cat $((1 +\n2)) | { f; }\ny\nE\n",
	"case x in (a) ((1)) ;; esac\n", "case x in (a) b;; (c) ((2));; esac; ((3))\n", "case x in (a) b;; esac; (( x + 1 ))\n", "case x in (a) (b); ((c));; esac\n", "echo $(()) $((  ))\n",
	"case x in a) foo; ;; b) bar ;; esac\n", "case x in a) foo; ;; b) bar; ;; c) baz & ;; esac\n", "case x in (a) b; c; ;; d) ;; e) f; ;; esac\n",
	"if a; then b; fi; while c; do d; done\n", "if a; b; then c; fi\n", "while a; b; do c; done\n", "until a; do b; c; done\n", "for x in a; do b; c; done\n",
	"if a; then b; elif c; d; then e; else f; fi\n", "{ a; b; }; ( c; d )\n", "a; b; c\n", "a & b & c &\n",
	// a one-line subshell / substitution whose first thing is a subshell, in every position of the list grammar
	"( (a) | b )\n", "$( (a) | b )\n", "( (a) && b )\n", "( ! (a) )\n", "( (a) >f )\n", "( (a) & )\n", "( { (a); } )\n", "( (a) | (b) )\n", "a $( (b) || c ) d\n", "( ( (a) ) | b )\n",
	// an arithmetic command, then nested subshells whose closing parentheses meet in the printed form
	"((x)); ( (a) )\n", "(( x )) && ( a | (b) )\n", "if ((x)); then ( (a) ); fi\n", "((1)); ( b; (a) )\n", "((1))\n( (a) )\n", "while ((x)); do ( (a) ); done\n", "f() { ((x)); ( (a) ); }\n",
	// for without a word list, with a here-document pending from the pipeline
	"cat <<E | for x do a; done\nb\nE\n", "cat <<E | for x\ndo a; done\nb\nE\n", "cat <<E | for x; do\nb\nE\n a\ndone\n",
	// here-documents pending on two levels at one newline (one in front of a compound command, one inside its condition)
	"cat <<A | while cat <<B | {\n1\nA\n2\nB\n x\n}; do\n y\ndone\n", "a <<A | if b <<B; then\n1\nA\n2\nB\n c\nfi\n", "a <<A | until b <<B | (\n1\nA\n2\nB\n c\n); do\n d\ndone\n",
	"a <<A | while b <<B; do\n1\nA\n2\nB\n c <<C\n3\nC\ndone\n", "a <<A && { b <<B | if c <<C; then\n1\nA\n2\nB\n3\nC\n d\nfi\n}\n",
	// if/elif chains whose conditions all end in ';'
	"if a; then\n b\nelif c; then\n d\nelif e; then\n f\nfi\n", "if a; b; then\n c\nelif d; then\n e\nfi\n",
}

func init() {
	// outputs larger than the 4096/8192-byte bufio buffer, with indented lines before and after the boundaries
	big := strings.Repeat("w", 5000)
	c18Programs = append(c18Programs,
		"{\n echo "+big+"\n if a; then\n  b\n fi\n c\n}\n",
		"for x in a; do\n echo "+big+big[:4500]+"\n while b; do\n  c\n done\ndone\n",
		"case x in\n a)\n  echo "+big+"\n  b;;\n c)\n  d;;\nesac\n",
	)
	c18Programs = append(c18Programs,
		"while echo "+big+"; do\n b\ndone\n", "if echo "+big+"; then\n b\nelif c "+big+"; then\n d\nfi\n", "until a; echo "+big+"; do\n b\ndone\n",
		big+" a\n", big+big+" <<E\nx\nE\n", "{\n"+big+"\n}\n",
		// the LAST token of the output is larger than the buffer (nothing buffered is left for the final flush to fail on)
		"echo "+big+"\n", "a b "+big+big+"\n", "x="+big+"\n", "a >"+big+"\n", "echo \""+big+"\"\n", "echo '"+big+"'\n", "cat <<E\n"+big+"\nE\n", "a; { b; echo "+big+"; }\n",
	)
	var b strings.Builder
	b.WriteString("if a; then\n")
	for i := 0; i < 130; i++ {
		fmt.Fprintf(&b, "  echo line %d of many; { x; y; }\n", i)
	}
	b.WriteString("fi\n")
	c18Programs = append(c18Programs, b.String())
}

func (c18) counts(tier string) int {
	if tier == "thorough" {
		return 6000
	}
	return 420
}

func (p c18) NumCases(tier string) int { return (len(c18Programs) + p.counts(tier)) * 2 }

func (p c18) Gen(seed uint64, tier string, idx int) (*Case, bool) {
	pi, lane := idx/2, idx%2
	c := &Case{Kind: "print", Cfg: -1}
	src := gen.FromSeed(gosim.Mix(seed, 0xC18, uint64(pi)))
	if pi < len(c18Programs) {
		c.Src = c18Programs[pi]
		c.Note = "curated"
	} else {
		o := gen.FullOpts()
		o.MaxDepth = 1 + src.Intn(3)
		o.BigWords = src.Chance(1, 6)
		o.HDBias = src.Chance(1, 3)
		o.HDMultiLine = true
		if src.Chance(1, 4) {
			// single-line forms: the printer's one-line branches (which hide and restore separators)
			o.MultiLine, o.Heredocs, o.QuotedNL, o.Continuation, o.InnerComments = false, false, false, false, false
		}
		g := gen.NewG(src, o)
		it := g.CompleteCommand(false)
		for it.Blank {
			it = g.CompleteCommand(false)
		}
		c.Src = it.Text
		c.Note = "program"
		if o.BigWords {
			c.Note = "big-program"
		}
	}
	if lane == 1 {
		c.Writer = gosim.WriterPlan{Kind: "all", After: -2}
		c.Opts = uint(gosim.Mix(seed, 0xC18F, uint64(pi)) & 0xffffff) // seeds the 8 Configs and the sampled k
	}
	return c, true
}

// c18Configs: 0..255 are the complete space of the enumerated fields with Width 2/4; the indices above add
// other widths (0: the caller leaves the default to the printer; 1, 3, 8).
const c18Configs = 256 + 8

// DecodeConfig maps 0..c18Configs-1 onto Config values.
func DecodeConfig(i int) printer.Config {
	if i >= 256 {
		x := i - 256
		c := DecodeConfig([]int{1, 0, 1, 1, 1 | 4 | 32 | 64 | 128, 8 | 16 | 32, 1 | 128, 1 | 4 | 8 | 16}[x])
		c.Width = []int{0, 0, 8, 1, 0, 0, 3, 8}[x]
		return c
	}
	var c printer.Config
	if i&1 != 0 {
		c.Indent = printer.Space
	} else {
		c.Indent = printer.Tab
	}
	if i&2 != 0 {
		c.Width = 4
	} else {
		c.Width = 2
	}
	if i&4 != 0 {
		c.Redir = printer.Before
	} else {
		c.Redir = printer.After
	}
	if i&8 != 0 {
		c.Redir |= printer.Space
	}
	if i&16 != 0 {
		c.Assign = printer.After
	} else {
		c.Assign = printer.Before
	}
	if i&32 != 0 {
		c.Do = printer.Newline
	}
	if i&64 != 0 {
		c.Case = true
	}
	if i&128 != 0 {
		c.Then = printer.Newline
	}
	return c
}

func (c18) Plan(seed uint64, tier string, idx int, c *Case) []Sched { return []Sched{{PolicyIdx: 0}} }

type c18Live struct {
	Findings []Finding
	Calls    int
	Lines    int
	Fired    int
}

func safePrint(cfg *printer.Config, w io.Writer, n ast.Node) (err error, panicked interface{}, stack string) {
	defer func() {
		if e := recover(); e != nil {
			panicked = e
			buf := make([]byte, 2048)
			stack = string(buf[:runtime.Stack(buf, false)])
		}
	}()
	err = cfg.Fprint(w, n)
	return
}

func (p c18) Run(t *testing.T, c *Case, s Sched, keepLog bool) *Obs {
	o := &Obs{Sched: s, Faults: map[string]int{}, Extra: map[string]string{}}
	live := &c18Live{}
	o.Live = live
	seen := map[string]bool{}
	add := func(class, detail string, narrow *Case) {
		if !seen[class] {
			seen[class] = true
			live.Findings = append(live.Findings, Finding{Class: class, Detail: detail, Narrow: narrow, Obs: []int{0}})
		}
	}
	cmds, comments, err := parser.ParseCommands(nil, "sim", c.Src)
	if err != nil || len(cmds) == 0 {
		o.Extra["skip"] = fmt.Sprint("not accepted: ", err)
		o.Dump = "skipped"
		return o
	}
	var T ast.Node = cmds[0]
	if len(cmds) > 1 {
		o.Extra["skip"] = "more than one command"
	}
	before := Dump(T, 0)

	narrow := func(cfg int, kind string, k int) *Case {
		n := *c
		n.Cfg = cfg
		n.Writer = gosim.WriterPlan{Kind: kind, After: k}
		n.GenTape = nil
		return &n
	}

	// one Config VALUE per index, reused for every print of this case (a printer that writes defaults back
	// into the caller's Config prints differently the second time)
	cfgObjs := map[int]*printer.Config{}
	cfgFor := func(cfgIdx int) *printer.Config {
		if p, ok := cfgObjs[cfgIdx]; ok {
			return p
		}
		v := DecodeConfig(cfgIdx)
		cfgObjs[cfgIdx] = &v
		return &v
	}
	freeOut := func(cfgIdx int) ([]byte, bool) {
		Tick()
		cfg := cfgFor(cfgIdx)
		var b1 bytes.Buffer
		live.Calls++
		err, pn, st := safePrint(cfg, &b1, T)
		if pn != nil {
			add("print-panic", fmt.Sprintf("Fprint panicked under config %d: %v\n%s", cfgIdx, pn, st), narrow(cfgIdx, "", 0))
			return nil, false
		}
		if err != nil {
			add("print-error", fmt.Sprintf("Fprint to an infallible writer returned %v (config %d)", err, cfgIdx), narrow(cfgIdx, "", 0))
			return nil, false
		}
		return b1.Bytes(), true
	}

	checkTree := func(what string, cfgIdx int, kind string, k int) {
		if after := Dump(T, 0); after != before {
			add("tree-modified", fmt.Sprintf("the AST differs after %s (config %d): %s", what, cfgIdx, firstDiff(before, after)), narrow(cfgIdx, kind, k))
		}
	}

	if c.Writer.Kind == "" {
		// fault-free lane over one or all configs
		lo, hi := 0, c18Configs-1
		if c.Cfg >= 0 {
			lo, hi = c.Cfg, c.Cfg
		}
		for ci := lo; ci <= hi; ci++ {
			out, ok := freeOut(ci)
			if !ok {
				continue
			}
			live.Lines += bytes.Count(out, []byte("\n"))
			checkTree("a fault-free print", ci, "", 0)
			if ci%16 == 0 {
				// a history with a failing call in between: printing a malformed tree (nil command deep inside compound
				// lists) panics or fails; that must leave no trace in later prints of the good tree
				safePrint(cfgFor(ci), io.Discard, c18BadTree())
			}
			out2, ok := freeOut(ci)
			if ok && !bytes.Equal(out, out2) {
				add("print-not-deterministic", fmt.Sprintf("two prints of the same tree differ (config %d): %s", ci, firstDiff(string(out), string(out2))), narrow(ci, "", 0))
			}
			// fix-point: re-parse and print again
			cmds2, _, err := parser.ParseCommands(nil, "sim", string(out))
			if err != nil || len(cmds2) != 1 {
				add("output-not-reparsable", fmt.Sprintf("printed text is not accepted as one command (config %d): err=%v, %d commands; output %q", ci, err, len(cmds2), shortStr(string(out), 300)), narrow(ci, "", 0))
				continue
			}
			var b3 bytes.Buffer
			cfg := cfgFor(ci)
			live.Calls++
			if err, pn, _ := safePrint(cfg, &b3, cmds2[0]); pn != nil || err != nil {
				add("print-panic", fmt.Sprintf("printing the re-parsed output failed (config %d): %v %v", ci, err, pn), narrow(ci, "", 0))
				continue
			}
			if !bytes.Equal(out, b3.Bytes()) {
				add("not-a-fixpoint", fmt.Sprintf("print(parse(print(T))) != print(T) (config %d): %s", ci, firstDiff(string(out), b3.String())), narrow(ci, "", 0))
			}
		}
		o.SubRuns = live.Calls
		o.Res.Probes = map[string]int{"configs-printed": hi - lo + 1, "programs-under-all-256-configs": b2i(hi-lo == c18Configs-1)}
		o.Dump = fmt.Sprintf("fault-free lane: %d Fprint calls", live.Calls)
		return o
	}

	// fault lane
	rng := gosim.NewRng(uint64(c.Opts) + 0x9e37)
	var cfgs []int
	if c.Cfg >= 0 {
		cfgs = []int{c.Cfg}
	} else {
		cfgs = []int{0, 255, 256 + rng.Intn(8)}
		for len(cfgs) < 8 {
			cfgs = append(cfgs, rng.Intn(c18Configs))
		}
	}
	kinds := []string{"fail", "short", "chunk", "failfull", "fail-sw", "fail-bufio"}
	if c.Writer.Kind != "all" {
		kinds = []string{c.Writer.Kind}
	}
	for _, ci := range cfgs {
		out, ok := freeOut(ci)
		if !ok {
			continue
		}
		L := len(out)
		var ks []int
		switch {
		case c.Writer.After >= 0:
			ks = []int{c.Writer.After}
		case L <= 512:
			for k := 0; k <= L; k++ {
				ks = append(ks, k)
			}
		default:
			for _, k := range []int{0, 1, 4095, 4096, 4097, 8191, 8192, L - 1, L} {
				if k >= 0 && k <= L {
					ks = append(ks, k)
				}
			}
			for i := 0; i < 32; i++ {
				ks = append(ks, rng.Intn(L+1))
			}
			if L > 4096 {
				o.Faults["bufio-boundary-crossed"]++
			}
		}
		cfg := cfgFor(ci)
		for _, kind := range kinds {
			Tick()
			for _, k := range ks {
				w := &gosim.SimWriter{Plan: gosim.WriterPlan{Kind: kind, After: k}}
				if kind == "chunk" {
					w.Plan.After = 1 + k%7
				}
				var dst io.Writer = w
				if kind == "fail-sw" {
					// same failure, but the destination also implements io.StringWriter
					w.Plan.Kind = "fail"
					dst = gosim.SimStringWriter{SimWriter: w}
				}
				if kind == "fail-bufio" {
					// the caller hands over its own small *bufio.Writer in front of the failing writer
					w.Plan.Kind = "fail"
					dst = bufio.NewWriterSize(w, 16)
				}
				live.Calls++
				err, pn, st := safePrint(cfg, dst, T)
				what := fmt.Sprintf("writer %s after %d of %d bytes", kind, k, L)
				if pn != nil {
					add("print-panic", fmt.Sprintf("Fprint panicked with %s (config %d): %v\n%s", what, ci, pn, st), narrow(ci, kind, k))
					continue
				}
				if w.Fired > 0 {
					live.Fired++
					o.Faults["writer-"+kind]++
				}
				if kind == "fail-bufio" {
					// what is still in the caller's buffer is the caller's business; but a failure of the underlying
					// writer that happened DURING Fprint must be reported by Fprint
					if w.Fired > 0 && err == nil {
						add("write-error-lost", fmt.Sprintf("%s behind the caller's 16-byte bufio.Writer: the writer failed during Fprint, Fprint returned nil (config %d)", what, ci), narrow(ci, kind, k))
					} else if w.Fired > 0 && !errors.Is(err, gosim.ErrInjected) {
						add("write-error-replaced", fmt.Sprintf("%s behind the caller's bufio.Writer: Fprint returned %v (config %d)", what, err, ci), narrow(ci, kind, k))
					} else if w.Fired == 0 && err != nil {
						add("spurious-write-error", fmt.Sprintf("%s behind the caller's bufio.Writer (no fault reached): err=%v (config %d)", what, err, ci), narrow(ci, kind, k))
					}
					checkTree("a print with "+what, ci, kind, k)
					continue
				}
				switch {
				case kind == "chunk":
					if err != nil || !bytes.Equal(w.Buf, out) {
						add("chunked-writer-changed-output", fmt.Sprintf("%s: err=%v, output differs: %v", what, err, !bytes.Equal(w.Buf, out)), narrow(ci, kind, k))
					}
				case k < L:
					want := error(gosim.ErrInjected)
					if kind == "short" {
						want = io.ErrShortWrite
					}
					if err == nil {
						add("write-error-lost", fmt.Sprintf("%s: Fprint returned nil (config %d)", what, ci), narrow(ci, kind, k))
					} else if !errors.Is(err, want) {
						add("write-error-replaced", fmt.Sprintf("%s: Fprint returned %v, expected %v (config %d)", what, err, want, ci), narrow(ci, kind, k))
					}
					if !bytes.HasPrefix(out, w.Buf) {
						add("partial-output-not-a-prefix", fmt.Sprintf("%s: the %d bytes accepted are not a prefix of the fault-free output (config %d)", what, len(w.Buf), ci), narrow(ci, kind, k))
					}
				default:
					if err != nil || !bytes.Equal(w.Buf, out) {
						add("spurious-write-error", fmt.Sprintf("%s (no fault reached): err=%v, same output: %v (config %d)", what, err, bytes.Equal(w.Buf, out), ci), narrow(ci, kind, k))
					}
				}
				checkTree("a print with "+what, ci, kind, k)
			}
		}
		if again, ok := freeOut(ci); ok && !bytes.Equal(again, out) {
			add("print-changed-after-faults", fmt.Sprintf("fault-free print differs after failed prints (config %d)", ci), narrow(ci, "", 0))
		}
	}
	// the other node kinds Fprint accepts (comment, word, word part): the comments this program came with and one
	// synthesized node of each kind, to a writer failing after k bytes for every k
	if c.Cfg < 0 && c.Writer.Kind == "all" {
		others := []ast.Node{
			&ast.Comment{Hash: ast.NewPos(1, 1), Text: " a comment"},
			ast.Word{&ast.Lit{ValuePos: ast.NewPos(1, 1), Value: "word"}},
			&ast.Lit{ValuePos: ast.NewPos(1, 1), Value: "part"},
		}
		for _, cm := range comments {
			others = append(others, cm)
		}
		cfg := cfgFor(0)
		for _, n := range others {
			var free bytes.Buffer
			if err, pn, _ := safePrint(cfg, &free, n); err != nil || pn != nil || free.Len() == 0 {
				continue // what a fault-free print of such a node gives is not this lane's business
			}
			L := free.Len()
			for k := 0; k < L && k < 64; k++ {
				w := &gosim.SimWriter{Plan: gosim.WriterPlan{Kind: "fail", After: k}}
				live.Calls++
				err, pn, st := safePrint(cfg, w, n)
				what := fmt.Sprintf("%T node, writer fail after %d of %d bytes", n, k, L)
				if pn != nil {
					add("print-panic", fmt.Sprintf("Fprint panicked with %s: %v\n%s", what, pn, st), nil)
					continue
				}
				if w.Fired > 0 {
					live.Fired++
					o.Faults["writer-fail-other-node"]++
				}
				if err == nil {
					add("write-error-lost", fmt.Sprintf("%s: Fprint returned nil", what), nil)
				} else if !errors.Is(err, gosim.ErrInjected) {
					add("write-error-replaced", fmt.Sprintf("%s: Fprint returned %v", what, err), nil)
				}
			}
		}
	}
	o.Fired = live.Fired > 0
	o.Res.Probes = map[string]int{"writer-faults-fired": live.Fired, "fault-lane-fprint-calls": live.Calls}
	o.SubRuns = live.Calls
	o.Dump = fmt.Sprintf("fault lane: %d Fprint calls, %d faults fired", live.Calls, live.Fired)
	return o
}

func (c18) Judge(c *Case, obs []*Obs) []Finding {
	var fs []Finding
	for _, o := range obs {
		if live, ok := o.Live.(*c18Live); ok {
			fs = append(fs, live.Findings...)
		}
	}
	return fs
}

func (c18) Nontrivial(c *Case, obs []*Obs) bool {
	for _, o := range obs {
		if live, ok := o.Live.(*c18Live); ok && (live.Lines >= 2*256 || live.Fired > 0) {
			return true
		}
	}
	return false
}

func b2i(b bool) int {
	if b {
		return 1
	}
	return 0
}

// c18BadTree: a tree the parser never produces (a nil command three levels deep).
func c18BadTree() ast.Node {
	inner := &ast.Cmd{Expr: &ast.Group{Lbrace: ast.NewPos(1, 1), Rbrace: ast.NewPos(3, 1), List: []ast.Command{nil}}}
	mid := &ast.Cmd{Expr: &ast.Subshell{Lparen: ast.NewPos(1, 1), Rparen: ast.NewPos(4, 1), List: []ast.Command{inner, inner}}}
	return &ast.Cmd{Expr: &ast.Group{Lbrace: ast.NewPos(1, 1), Rbrace: ast.NewPos(5, 1), List: []ast.Command{mid, mid}}}
}
