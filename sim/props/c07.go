package props

import (
	"fmt"
	"regexp"
	"strings"
	"testing"

	"github.com/hattya/go.sh/interp"
	"github.com/hattya/go.sh/parser"

	"verifsim/gen"
	"verifsim/gosim"
)

// C07 — one call consumes exactly one complete command from the stream.
type c07 struct{}

func init() {
	Register(c07{})
	rules["C07"] = "a case is a stream of 1..8 generated complete commands (single-line, multi-line compound, here-documents, trailing comments, continuations, blank lines, optional missing final newline) served by one SimReader (strict or multi-step UnreadRune); ParseCommands is called until the reader is exhausted, every call under the seeded scheduler. Oracle per call i: nil error; reader offset at return (and after the drain phase) == generator's end offset of item i; result == result of parsing item i alone from a fresh reader; blank lines give empty results; number of calls == number of items; same under every schedule. non-trivial = stream of >= 2 items; distinct = distinct stream"
}

func (c07) ID() string { return "C07" }

func (c07) NumCases(tier string) int {
	if tier == "thorough" {
		return 120000
	}
	return 12000
}

func (p c07) Gen(seed uint64, tier string, idx int) (*Case, bool) {
	src := gen.FromSeed(gosim.Mix(seed, 0xC07, uint64(idx)))
	c := p.build(src)
	return c, true
}

func (p c07) Regen(tier string, c *Case, tape []uint32) *Case {
	return p.build(gen.FromTape(tape))
}

func (c07) build(src *gen.Source) *Case {
	o := gen.FullOpts()
	o.MaxDepth = 1 + src.Intn(3)
	o.HDMultiLine = src.Chance(1, 3) // expansions that span lines inside here-document bodies
	c := &Case{Kind: "stream", Reader: gosim.ReaderPlan{Kind: "scanner", FaultAt: -1}}
	switch src.Intn(9) {
	case 0, 1:
		c.Reader.Unread = "multi"
	case 2:
		c.Reader.Kind = "strings.Reader"
	case 3:
		c.Reader.Kind = "bytes.Reader"
	case 4:
		c.Reader.Kind = "bytes.Buffer"
	case 5:
		c.Reader.Kind = "bufio.Reader"
	}
	c.Bystander = true
	nlAliases := false
	if src.Chance(1, 4) {
		// a benign alias table (values keep every command well-formed): substitution at command position,
		// trailing-blank aliases that make the next word eligible, a value spanning two lines
		c.Aliases = [][2]string{{"cat", "cat -n "}, {"grep", "grep -q $(a b)"}, {"ls", "ls -l "}, {"x1", "x1 "}, {"true", "true `x y`"}, {"_f", "_f $((1+2)) a"}, {"echo", "echo $(date +%F) \"$(b)\""}}
		nlAliases = src.Chance(1, 2)
	}
	g := gen.NewG(src, o)
	n := 1 + src.Intn(8)
	for _, it := range g.Stream(n) {
		c.Src += it.Text
		c.CmdEnds = append(c.CmdEnds, len(c.Src))
		for _, h := range it.HDs {
			c.Heredocs = append(c.Heredocs, HereDoc{Op: h.Op, Delim: h.Delim, Quoted: h.Quoted, Body: h.Body})
		}
	}
	if nlAliases && len(c.Heredocs) == 0 {
		// values ending in a newline: the rest of the line becomes a second command of the same call (some lines
		// become invalid: nothing is checked from there on). Not combined with here-documents: a newline inside
		// alias text starts the body early, which moves the command boundaries the oracle relies on.
		c.Aliases = append(c.Aliases, [2]string{"echo", "echo\n"}, [2]string{"b", "b \n"}, [2]string{"cmd", "cmd x\n "})
	}
	c.GenTape = src.Rec
	return c
}

func (c07) Plan(seed uint64, tier string, idx int, c *Case) []Sched {
	s := []Sched{{PolicyIdx: 0}, {PolicyIdx: 1}, {PolicyIdx: 2 + idx%7, Seed: gosim.Mix(seed, 0x5C4ED, uint64(idx))}}
	if tier == "thorough" {
		s = append(s, Sched{PolicyIdx: 9 + idx%5, Seed: gosim.Mix(seed, 0x5C4EE, uint64(idx))})
	}
	return s
}

func (c07) Run(t *testing.T, c *Case, s Sched, keepLog bool) *Obs {
	return RunParse(t, c, s, keepLog)
}

func (c07) Judge(c *Case, obs []*Obs) []Finding {
	var fs []Finding
	seen := map[string]bool{}
	add := func(f Finding) {
		if !seen[f.Class] {
			seen[f.Class] = true
			fs = append(fs, f)
		}
	}
	// expected per item: parse it alone
	alone := make([]string, len(c.CmdEnds))
	aloneErr := make([]bool, len(c.CmdEnds))
	start := 0
	for i, end := range c.CmdEnds {
		text := c.Src[start:end]
		var env *interp.ExecEnv
		if len(c.Aliases) > 0 {
			env = &interp.ExecEnv{Aliases: map[string]string{}}
			for _, kv := range c.Aliases {
				env.Aliases[kv[0]] = kv[1]
			}
		}
		rd := strings.NewReader(text)
		cmds, comments, err := parser.ParseCommands(env, "sim", rd)
		alone[i] = fmt.Sprintf("cmds=%s\ncomments=%s\n%s", Dump(cmds, 0), Dump(comments, 0), DumpErr(err))
		aloneErr[i] = err != nil
		if len(c.Aliases) > 0 && rd.Len() != 0 && reshapedByAlias(c.Aliases, text) {
			// a newline in an alias value puts the NEXT word into command position; if that word is a reserved word
			// (written as an argument: "b done"), the item is not one complete command under this table any more.
			// (Decided from the text, not from what the implementation does with it.)
			aloneErr[i] = true
		}
		if err != nil && len(c.Aliases) == 0 {
			add(Finding{Class: "item-rejected", Detail: fmt.Sprintf("generated complete command %d is rejected on its own: %v; text %q", i, err, shortStr(text, 200))})
		}
		start = end
	}
	for oi, o := range obs {
		for _, f := range simFindings(o, oi, gosim.VDeadlock, gosim.VStepBudget, gosim.VReaderBudget, gosim.VCallerPanic, gosim.VOpAfterReturn, gosim.VAliveAtReturn) {
			add(f)
		}
		live, _ := o.Live.(*ParseLive)
		if live == nil {
			continue
		}
		stoppedByAlias := false
		for i := range live.Errs {
			if i < len(aloneErr) && aloneErr[i] {
				// an alias made this line invalid: it is no complete command any more (an unterminated construct
				// reaches into the following lines), so nothing from here on is checked
				stoppedByAlias = true
				break
			}
			if live.Errs[i] != nil {
				add(Finding{Class: "call-error", Obs: []int{oi}, Detail: fmt.Sprintf("call %d returned error %v", i, live.Errs[i])})
				break
			}
			if i >= len(c.CmdEnds) {
				add(Finding{Class: "extra-call", Obs: []int{oi}, Detail: fmt.Sprintf("%d calls were needed for %d complete commands (offsets at return %v, expected %v)", len(live.Errs), len(c.CmdEnds), o.PosAtReturn, c.CmdEnds)})
				break
			}
			if o.PosAtReturn[i] != c.CmdEnds[i] {
				add(Finding{Class: "wrong-consumption", Obs: []int{oi}, Detail: fmt.Sprintf("call %d left the reader at offset %d, the command ends at %d (all: %v vs %v)", i, o.PosAtReturn[i], c.CmdEnds[i], o.PosAtReturn, c.CmdEnds)})
				break
			}
			if o.Parts[i] != alone[i] {
				add(Finding{Class: "result-differs-from-separate-parse", Obs: []int{oi}, Detail: fmt.Sprintf("call %d: %s", i, firstDiff(alone[i], o.Parts[i]))})
				break
			}
		}
		if stoppedByAlias {
			continue
		}
		if len(live.Errs) < len(c.CmdEnds) && !seen["call-error"] && !seen["wrong-consumption"] {
			add(Finding{Class: "missing-call", Obs: []int{oi}, Detail: fmt.Sprintf("reader exhausted after %d calls for %d complete commands (offsets %v, expected %v)", len(live.Errs), len(c.CmdEnds), o.PosAtReturn, c.CmdEnds)})
		}
		if n := len(o.PosAtReturn); n > 0 && o.PosAfterDrain != o.PosAtReturn[n-1] {
			add(Finding{Class: "consumption-after-return", Obs: []int{oi}, Detail: fmt.Sprintf("reader moved from %d to %d after the last call returned", o.PosAtReturn[n-1], o.PosAfterDrain)})
		}
		if oi > 0 && o.Dump != obs[0].Dump {
			add(Finding{Class: "result-differs", Obs: []int{0, oi}, Detail: firstDiff(obs[0].Dump, o.Dump)})
		}
	}
	return fs
}

// reshapedByAlias: the text contains the name of an alias whose value holds a newline, directly followed by a
// reserved word or brace.
func reshapedByAlias(aliases [][2]string, text string) bool {
	var names []string
	for _, kv := range aliases {
		if strings.Contains(kv[1], "\n") {
			names = append(names, regexp.QuoteMeta(kv[0]))
		}
	}
	if len(names) == 0 {
		return false
	}
	re := regexp.MustCompile(`(^|[ \t;&|(){}!\n])(` + strings.Join(names, "|") + `)[ \t]+(done|fi|then|do|esac|elif|else|in|if|while|until|for|case|\{|\}|!)($|[ \t;&|()<>\n])`)
	return re.MatchString(text)
}

func (c07) Nontrivial(c *Case, obs []*Obs) bool { return len(c.CmdEnds) >= 2 }
