package props

import (
	"fmt"
	"os"
	"regexp"
	"sort"
	"strconv"
	"strings"
	"testing"

	"github.com/hattya/go.sh/ast"
	"github.com/hattya/go.sh/interp"
	"github.com/hattya/go.sh/parser"

	"verifsim/gen"
	"verifsim/gosim"
)

// C20 — the variable store is a map with read-only specials; only assignments change it.
type c20 struct{}

func init() {
	Register(c20{})
	rules["C20"] = "a case is a history of 1..12 operations on one ExecEnv over the name universe {x, X, _y1, IFS, HOME} + specials {@ * # ? - ! 0} + positionals {1 2 9 10 11}: Set, Unset, Get, Walk, direct changes of Args/Opts, and Expand/Eval from templates with an unambiguous effect (${N}, ${N:-w}, ${N:=w}, ${N=w}, ${N:?}, ${N?}, ${#N}, $((N=k)), $((N+=k)), $((N++)), $((--N)), faulting non-assigning arithmetic, ${S:=w} on specials/positionals). Expand/Eval steps run under the seeded scheduler (they start lexer goroutines). After EVERY step the oracle compares Get of every name in the universe, the Walk set, Args, Opts, Aliases and the AST given to Expand with a plain map model written from the POSIX definitions; the whole history must also give the same dump under every schedule. non-trivial = history with at least one assigning expansion/evaluation and one Set/Unset; distinct = distinct history"
}

func (c20) ID() string { return "C20" }

func (c20) NumCases(tier string) int {
	if tier == "thorough" {
		return c20ShortHistories() + 300000
	}
	return c20ShortHistories() + 40000
}

var c20Ordinary = []string{"x", "X", "_y1", "IFS", "HOME", "x0", "v10", "é", "Ł", "A", "I"}
var c20Special = []string{"@", "*", "#", "?", "-", "!", "0"}
var c20Positional = []string{"1", "2", "9", "10", "11", "00", "01", "000", "9223372036854775808", "99999999999999999999", "010", "08", "09", "007", "012"}

// c20Environ: entries of the PROCESS environment present when the ExecEnv is created (names that are
// not shell variable names: whatever the store does with them, $1 / $# / $0 reflect Args).
var c20Environ = [][2]string{{"1", "envone"}, {"12", "env12"}, {"2", ""}, {"#", "envhash"}, {"0", "envzero"}, {"08", "env08"}}
var c20Values = []string{"", "0", "1", "7", "42", "-3", "abc", "a b", "08", " ", "é", "2147483648", "-4294967297", "9007199254740993"}
var c20Words = []string{"w", "", "a b", "5", "$X", "'q'", "a$N"}

// c20Alphabet: the reduced operation alphabet whose histories of length 1..3 are enumerated exhaustively.
var c20Alphabet = []Op{
	{Op: "set", Name: "x", Value: "1"}, {Op: "set", Name: "X", Value: "a b"}, {Op: "set", Name: "1", Value: "v"}, {Op: "set", Name: "#", Value: "9"},
	{Op: "unset", Name: "x"}, {Op: "unset", Name: "X"},
	{Op: "expand", Name: "x", Value: "${x:=w}"}, {Op: "expand", Name: "x", Value: "${x:?}"}, {Op: "expand", Name: "x", Value: "$((x+=1))"}, {Op: "expand", Name: "1", Value: "${1:=w}"},
	{Op: "eval", Name: "x", Value: "x=5"}, {Op: "eval", Name: "X", Value: "X++"},
	{Op: "args", Args: []string{"sh", "q"}}, {Op: "opts", Opts: uint(interp.NoUnset | interp.XTrace)},
}

func c20ShortHistories() int {
	n, t := len(c20Alphabet), 0
	for l, p := 1, n; l <= 3; l, p = l+1, p*n {
		t += p
	}
	return t
}

func init() {
	exhaustive["C20"] = func(tier string) map[string]int { return map[string]int{"short-history<=3": c20ShortHistories()} }
}

func (p c20) Gen(seed uint64, tier string, idx int) (*Case, bool) {
	if idx < c20ShortHistories() {
		// exhaustive: all histories of 1..3 operations over the reduced alphabet
		n := len(c20Alphabet)
		l, i := 1, idx
		for pw := n; i >= pw; pw *= n {
			i -= pw
			l++
		}
		c := &Case{Kind: "history", Args: []string{"sh", "p1"}, Note: "short-history<=3"}
		ops := make([]Op, l)
		for k := l - 1; k >= 0; k-- {
			ops[k] = c20Alphabet[i%n]
			ops[k].Observe = (idx + k) % 3 // observation pattern varies with the index; the last step always observes everything
			i /= n
		}
		c.History = ops
		return c, true
	}
	idx -= c20ShortHistories()
	return p.build(gen.FromSeed(gosim.Mix(seed, 0xC20, uint64(idx)))), true
}

func (p c20) Regen(tier string, c *Case, tape []uint32) *Case { return p.build(gen.FromTape(tape)) }

func (c20) build(src *gen.Source) *Case {
	c := &Case{Kind: "history"}
	nargs := src.Intn(4)
	c.Args = []string{"sh"}
	for i := 0; i < nargs; i++ {
		c.Args = append(c.Args, src.Pick([]string{"p1", "", "p 3", "4", "40", "7"}))
	}
	if src.Chance(1, 6) {
		for len(c.Args) < 12 {
			c.Args = append(c.Args, fmt.Sprintf("a%d", len(c.Args)))
		}
	}
	if src.Chance(1, 10) {
		k := 1 + src.Intn(3)
		for i := 0; i < k; i++ {
			c.Vars = append(c.Vars, c20Environ[src.Intn(len(c20Environ))])
		}
	} else if src.Chance(1, 8) {
		c.Inherit = true
	}
	n := 1 + src.Intn(12)
	anyName := func() string {
		switch src.Intn(24) {
		case 23:
			return "" // the empty name is an ordinary (if odd) variable name for Set/Unset/Get
		}
		switch src.Intn(6) {
		case 0:
			return src.Pick(c20Special)
		case 1:
			return src.Pick(c20Positional)
		}
		return src.Pick(c20Ordinary)
	}
	for i := 0; i < n; i++ {
		var op Op
		switch src.Intn(12) {
		case 0, 1:
			op = Op{Op: "set", Name: anyName(), Value: src.Pick(c20Values)}
		case 2:
			op = Op{Op: "unset", Name: anyName()}
		case 3:
			op = Op{Op: "get", Name: anyName()}
		case 4:
			if src.Chance(1, 3) {
				op = Op{Op: "walk"}
			} else if src.Chance(1, 2) {
				// a Walk whose callback changes the store: entries must be live when they are reported
				op = Op{Op: "walkmut", Name: src.Pick(c20Ordinary), Value: src.Pick(c20Ordinary)}
			} else {
				op = Op{Op: "parse", Value: src.Pick([]string{"ll a; b\n", "ll\n", "x=1 ll $x ${y:=2}\n", "ll | ll && $((z=3))\n", "alias ll=x\n", "l2 a\n", "l3 ll; l2\n"})}
			}
		case 5:
			if src.Chance(1, 2) {
				k := src.Intn(4)
				a := []string{"sh"}
				for j := 0; j < k; j++ {
					a = append(a, src.Pick([]string{"q", "", "z 2"}))
				}
				op = Op{Op: "args", Args: a}
			} else {
				op = Op{Op: "opts", Opts: uint(src.Intn(1 << 13))}
			}
		case 6, 7, 8:
			tmpl := src.Pick([]string{"${N}", "${N:-W}", "${N:=W}", "${N=W}", "${N:?}", "${N?}", "${#N}", "${N:+W}", "${N+W}", "${N%P}", "${N%%P}", "${N#P}", "${N##P}"})
			tmpl = strings.ReplaceAll(tmpl, "P", src.Pick([]string{"*", "p*", "?", "1", "a*", "*3", "z"}))
			if src.Chance(1, 6) {
				// expansions that consult HOME / IFS or nest an arithmetic assignment in the operator word
				tmpl = src.Pick([]string{"~", "~/x", "a:~:b", "$N", "x$N", "${N:=${IFS:=:}\"$@\"}", "${N:=$((_y1=7))}", "${N:-$((X=3))}", "${N:+$((X=4))}", "${N%$((_y1=_y1+1))}", "${N##$((_y1=_y1+1))}"})
			}
			nm := anyName()
			if nm == "" {
				nm = "x" // "${?}", "${#}" ... with an empty name are other expansions altogether
			}
			op = Op{Op: "expand", Name: nm, Value: strings.ReplaceAll(tmpl, "W", src.Pick(c20Words)), Mode: []uint{0, uint(interp.Quote), 0, uint(interp.Literal), uint(interp.Pattern), uint(interp.Assign), uint(interp.Arith), 0}[src.Intn(8)]}
		case 9, 10:
			tmpl := src.Pick([]string{"$((N=K))", "$((N+=K))", "$((N++))", "$((--N))", "$((N-=K))", "$((N*=K))", "$((1/0))", "$((08))", "$((N+1/0))", "$((N N))", "$((N))", "$((N+K))", "$((N+=M))", "$((N*=M))", "$((N=M))", "$((N-=M))", "$((N=$1))", "$((N=${2}+1))"})
			tmpl = strings.ReplaceAll(tmpl, "M", src.Pick([]string{"_y1", "X", "HOME"}))
			op = Op{Op: "expand", Name: src.Pick(c20Ordinary), Value: strings.ReplaceAll(tmpl, "K", src.Pick([]string{"0", "1", "5", "12", "2147483647", "4294967296"}))}
		default:
			tmpl := src.Pick([]string{"N=K", "N+=K", "N++", "--N", "1/0", "N N", "N", "(N=K)+1", "N+=M", "N*=M", "N=M", "--N + --N", "N++ + N", "--N * 0 + N++", "++N + N--", "N += N", "M = (N = 5) + (N = 7)", "(N = 2) + (N = 3)", "M = ++N", "M = --N", "M = ++N", "(N)++", "--(N)", "((N)) += 3", "(N) = 7"})
			tmpl = strings.ReplaceAll(tmpl, "M", src.Pick([]string{"_y1", "X", "HOME"}))
			op = Op{Op: "eval", Name: src.Pick(c20Ordinary), Value: strings.ReplaceAll(tmpl, "K", src.Pick([]string{"0", "1", "5", "12", "2147483647", "4294967296"}))}
		}
		op.Value = strings.ReplaceAll(op.Value, "N", op.Name)
		// observing changes what is observed (a Walk may clean up, a Get may refill a cache):
		// how much is looked at after each step is part of the history
		op.Observe = []int{2, 0, 1, 0, 2, 1}[src.Intn(6)]
		c.History = append(c.History, op)
	}
	if src.Chance(1, 10) {
		// a value derived from IFS and kept between expansions must follow Set AND Unset: the history starts with
		// "$*" under a non-default IFS, then IFS is unset (or set again), then "$*" once more
		for len(c.Args) < 3 {
			c.Args = append(c.Args, fmt.Sprintf("e%d", len(c.Args)))
		}
		star := Op{Op: "expand", Name: "*", Value: "${*}", Mode: uint(interp.Quote), Observe: 2}
		second := Op{Op: "unset", Name: "IFS", Observe: 1}
		if src.Chance(1, 3) {
			second = Op{Op: "set", Name: "IFS", Value: src.Pick([]string{",", "", " "}), Observe: 1}
		}
		ep := []Op{{Op: "set", Name: "IFS", Value: src.Pick([]string{":", "-x", ""}), Observe: 1}, star, second, star}
		c.History = append(ep, c.History...)
	}
	c.GenTape = src.Rec
	return c
}

func (c20) Plan(seed uint64, tier string, idx int, c *Case) []Sched {
	return []Sched{{PolicyIdx: 0}, {PolicyIdx: 1}, {PolicyIdx: 2 + idx%7, Seed: gosim.Mix(seed, 0x5C4ED, uint64(idx))}}
}

// ---- reference model -------------------------------------------------------

type c20Model struct {
	vars map[string]string
	args []string
	opts uint
}

func isSpecial(n string) bool {
	switch n {
	case "@", "*", "#", "?", "-", "$", "!", "0":
		return true
	}
	return false
}

func isPositional(n string) bool {
	if n == "" || n == "0" {
		return false
	}
	for _, r := range n {
		if r < '0' || r > '9' {
			return false
		}
	}
	return true
}

// optionLetters per POSIX set(1): -a allexport, -e errexit, -m monitor, -C noclobber, -f noglob,
// -n noexec, -b notify, -u nounset, -v verbose, -x xtrace (ignoreeof, nolog and vi have no letter).
func optionLetters(o uint) string {
	var ls []string
	add := func(bit interp.Option, l string) {
		if interp.Option(o)&bit != 0 {
			ls = append(ls, l)
		}
	}
	add(interp.AllExport, "a")
	add(interp.ErrExit, "e")
	add(interp.Monitor, "m")
	add(interp.NoClobber, "C")
	add(interp.NoGlob, "f")
	add(interp.NoExec, "n")
	add(interp.Notify, "b")
	add(interp.NoUnset, "u")
	add(interp.Verbose, "v")
	add(interp.XTrace, "x")
	sort.Strings(ls)
	return strings.Join(ls, "")
}

func sortLetters(s string) string {
	ls := strings.Split(s, "")
	sort.Strings(ls)
	return strings.Join(ls, "")
}

func (m *c20Model) get(n string) (string, bool) {
	switch n {
	case "#":
		return strconv.Itoa(len(m.args) - 1), true
	case "?":
		return "0", true
	case "-":
		l := optionLetters(m.opts)
		return l, l != ""
	case "!":
		return "", false
	case "0":
		return m.args[0], m.args[0] != ""
	case "@", "*":
		// always set; null when there are no positional parameters (or a single empty one)
		return strings.Join(m.args[1:], " "), true
	}
	if isPositional(n) {
		// the number the digits denote (leading zeros allowed); beyond the parameters (or beyond int): unset
		i, err := strconv.Atoi(n)
		if err == nil && i < len(m.args) {
			return m.args[i], true
		}
		return "", false
	}
	v, ok := m.vars[n]
	return v, ok
}

func cleanInt(s string) (int, bool) {
	if s == "" {
		return 0, true
	}
	if s != "0" && (strings.HasPrefix(s, "0") || strings.HasPrefix(s, "-0") || strings.HasPrefix(s, "+")) {
		return 0, false
	}
	n, err := strconv.Atoi(s)
	if err != nil || strings.TrimSpace(s) != s {
		return 0, false
	}
	return n, true
}

// arithPlan classifies an arithmetic template against the current model state:
//
//	"skip"   the operands' current values make the effect ambiguous for C20 (valid but not plain decimal)
//	"apply"  the evaluation must succeed and assign
//	"error"  an operand holds a non-numeric value: the evaluation must fail and assign nothing
//	"none"   the expression assigns nothing (whether or not it fails)
//
// and, for "apply", returns the variable and its new value.
func (m *c20Model) arithPlan(expr, name string) (plan string, value string) {
	classify := func(v string) (int, string) {
		if n, ok := cleanInt(v); ok {
			return n, "clean"
		}
		if _, err := strconv.ParseInt(v, 0, 64); err != nil {
			return 0, "garbage"
		}
		return 0, "odd"
	}
	operand := func(tok string) (int, string) {
		if k, err := strconv.Atoi(tok); err == nil {
			return k, "clean"
		}
		v, _ := m.get(tok)
		return classify(v)
	}
	v, _ := m.get(name)
	cur, curKind := classify(v)
	// a positional parameter as operand: $N inside $(( )) stands for its VALUE
	if m2 := regexp.MustCompile(`^` + regexp.QuoteMeta(name) + `=\$\{?([12])\}?(\+1)?$`).FindStringSubmatch(expr); m2 != nil {
		pv, pset := m.get(m2[1])
		if !pset {
			return "skip", ""
		}
		n, ok := cleanInt(pv)
		if !ok || pv == "" {
			return "skip", "" // a non-numeric positional value: what the evaluator makes of it is C11/C13's business
		}
		if m2[2] != "" {
			n++
		}
		return "apply", strconv.Itoa(n)
	}
	if expr == "("+name+" = 2) + ("+name+" = 3)" {
		return "apply", "3"
	}
	if expr == "("+name+") = 7" {
		return "apply", "7" // a parenthesised name is still an lvalue (C, and so POSIX arithmetic)
	}
	// several uses of the variable in one evaluation: the net effect on the store
	multi := map[string]int{"--N + --N": -2, "N++ + N": 1, "--N * 0 + N++": 0, "++N + N--": 0, "(N)++": 1, "--(N)": -1, "((N)) += 3": 3}
	for pat, delta := range multi {
		if expr == strings.ReplaceAll(pat, "N", name) {
			switch curKind {
			case "odd":
				return "skip", ""
			case "garbage":
				return "error", ""
			}
			return "apply", strconv.Itoa(cur + delta)
		}
	}
	if expr == name+" += "+name {
		switch curKind {
		case "odd":
			return "skip", ""
		case "garbage":
			return "error", ""
		}
		return "apply", strconv.Itoa(2 * cur)
	}
	var op, rhs string
	switch {
	case expr == "--"+name:
		op, rhs = "-=", "1"
	case expr == name+"++":
		op, rhs = "+=", "1"
	case strings.HasPrefix(expr, "("+name+"=") && strings.HasSuffix(expr, ")+1"):
		op, rhs = "=", strings.TrimSuffix(strings.TrimPrefix(expr, "("+name+"="), ")+1")
	case strings.HasPrefix(expr, name):
		rest := expr[len(name):]
		for _, o := range []string{"+=", "-=", "*=", "="} {
			if strings.HasPrefix(rest, o) && !strings.HasPrefix(rest, "==") {
				op, rhs = o, rest[len(o):]
				break
			}
		}
	}
	if op == "" {
		// N, N+K, 1/0, 08, N+1/0, N N: nothing is assigned; reading N must not be ambiguous either
		if curKind == "odd" {
			return "skip", ""
		}
		return "none", ""
	}
	r, rKind := operand(rhs)
	if op != "=" {
		// compound assignment reads N first
		switch curKind {
		case "odd":
			return "skip", ""
		case "garbage":
			return "error", ""
		}
	}
	switch rKind {
	case "odd":
		return "skip", ""
	case "garbage":
		return "error", ""
	}
	switch op {
	case "=":
		return "apply", strconv.Itoa(r)
	case "+=":
		return "apply", strconv.Itoa(cur + r)
	case "-=":
		return "apply", strconv.Itoa(cur - r)
	default:
		return "apply", strconv.Itoa(cur * r)
	}
}

// expandWord: the value the operator word of ${N:=W} expands to, for the word pool.
func (m *c20Model) wordValue(w string) string {
	if strings.HasPrefix(w, "a$") {
		v, _ := m.get(w[2:])
		return "a" + v
	}
	switch w {
	case "$X":
		v, _ := m.get("X")
		return v
	case "'q'":
		return "q"
	}
	return w
}

type c20Live struct {
	Findings []Finding
	Assigns  int
	Muts     int
}

func (p c20) Run(t *testing.T, c *Case, s Sched, keepLog bool) *Obs {
	sim := MakeSim(s, keepLog)
	o := &Obs{Sched: s, Extra: map[string]string{}}
	o.Sched.Policy = sim.Policy.Name()
	if s.UseTape {
		o.Sched.Policy = "tape"
	}
	live := &c20Live{}
	o.Live = live
	seen := map[string]bool{}
	add := func(class, detail string) {
		if !seen[class] {
			seen[class] = true
			live.Findings = append(live.Findings, Finding{Class: class, Detail: detail})
		}
	}
	var parts []string
	body := func() {
		cc := *c
		cc.Vars = nil
		var env, sibling *interp.ExecEnv
		inherited := map[string]string{}
		siblingSnap := ""
		if c.Inherit {
			// the environment keeps what it inherited from the process under the names HOME, PATH and IFS (everything
			// else is removed, so that the case does not depend on the worker's other variables); a sibling created
			// from the same process environment must never notice what is done to this one
			mk := func() *interp.ExecEnv {
				e := interp.NewExecEnv(c.Args[0], c.Args[1:]...)
				var names []string
				e.Walk(func(v interp.Var) { names = append(names, v.Name) })
				for _, n := range names {
					if n != "HOME" && n != "PATH" && n != "IFS" {
						e.Unset(n)
					}
				}
				return e
			}
			env, sibling = mk(), mk()
			env.Walk(func(v interp.Var) { inherited[v.Name] = v.Value })
			siblingSnap = dumpEnv(sibling)
		} else if len(c.Vars) == 0 {
			env = newEnv(&cc)
		} else {
			// the process environment holds entries named like positional/special parameters while the
			// ExecEnv is created; those entries are left alone, everything else is cleared as usual
			for _, kv := range c.Vars {
				os.Setenv(kv[0], kv[1])
			}
			env = interp.NewExecEnv(c.Args[0], c.Args[1:]...)
			for _, kv := range c.Vars {
				os.Unsetenv(kv[0])
			}
			var names []string
			env.Walk(func(v interp.Var) { names = append(names, v.Name) })
			for _, n := range names {
				if !isSpecial(n) && !isPositional(n) {
					env.Unset(n)
				}
			}
		}
		aliases := map[string]string{"ll": "ls -l", "l2": "ls  ", "l3": "l2 \t "}
		env.Aliases = map[string]string{"ll": "ls -l", "l2": "ls  ", "l3": "l2 \t "}
		m := &c20Model{vars: inherited, args: append([]string{}, env.Args...)}
		for si, op := range c.History {
			desc := fmt.Sprintf("step %d %s %s %q", si, op.Op, op.Name, op.Value)
			switch op.Op {
			case "set":
				env.Set(op.Name, op.Value)
				if !isSpecial(op.Name) && !isPositional(op.Name) {
					m.vars[op.Name] = op.Value
					live.Muts++
				}
			case "unset":
				env.Unset(op.Name)
				if !isSpecial(op.Name) && !isPositional(op.Name) {
					delete(m.vars, op.Name)
					live.Muts++
				}
			case "get":
				v, set := env.Get(op.Name)
				parts = append(parts, fmt.Sprintf("get %s=%q,%v", op.Name, v.Value, set))
				if op.Name != "@" && op.Name != "*" {
					mv, mset := m.get(op.Name)
					got, want := v.Value, mv
					if op.Name == "-" {
						got, want = sortLetters(got), sortLetters(want)
					}
					if op.Name == "-" || op.Name == "!" || op.Name == "0" {
						if !set {
							got = ""
						}
						if !mset {
							want = ""
						}
						set, mset = true, true
					}
					if set != mset || (set && got != want) {
						add("store-differs-from-model", fmt.Sprintf("%s: Get = (%q, %v), model says (%q, %v)", desc, v.Value, set, mv, mset))
					}
				}
			case "walk":
				// compared below on every step anyway
			case "walkmut":
				first := true
				env.Walk(func(v interp.Var) {
					if first {
						// the entry being visited when the store is changed is exempt
						first = false
						env.Unset(op.Name)
						env.Set(op.Value, "wm")
						return
					}
					if len(c.Vars) != 0 && (isSpecial(v.Name) || isPositional(v.Name)) {
						return // imported from the process environment: not pinned
					}
					if cur, set := env.Get(v.Name); !set || cur.Value != v.Value {
						add("walk-reports-dead-entry", fmt.Sprintf("%s: Walk reported %s=%q, but at that moment Get says (%q, %v)", desc, v.Name, v.Value, cur.Value, set))
					}
				})
				if !first {
					// the callback ran (the store was not empty): its two changes are part of the history
					delete(m.vars, op.Name)
					m.vars[op.Value] = "wm"
					live.Muts++
				}
			case "parse":
				// parsing with this environment (alias substitution) must not change it
				sim.Yield(gosim.PCallerMark)
				cmds, _, err := parser.ParseCommands(env, "h", op.Value)
				parts = append(parts, fmt.Sprintf("parse %q -> %d %s", op.Value, len(cmds), DumpErr(err)))
			case "args":
				env.Args = append([]string{}, op.Args...)
				m.args = append([]string{}, op.Args...)
			case "opts":
				env.Opts = interp.Option(op.Opts)
				m.opts = op.Opts
			case "eval":
				if mm := regexp.MustCompile(`^([^ ()=+]+) = \(([^ ()=+]+) = 5\) \+ \(([^ ()=+]+) = 7\)$`).FindStringSubmatch(op.Value); mm != nil && mm[2] == mm[3] {
					// two assignments to one variable inside one expression: the last value set stays, the sum is 12
					sim.Yield(gosim.PCallerMark)
					n, err := env.Eval(op.Value)
					parts = append(parts, fmt.Sprintf("eval %q n=%d %s", op.Value, n, DumpErr(err)))
					if err != nil {
						add("unexpected-eval-error", fmt.Sprintf("%s: %v", desc, err))
					} else {
						m.vars[mm[2]] = "7"
						m.vars[mm[1]] = "12"
						if mm[1] == mm[2] {
							m.vars[mm[1]] = "12"
						}
						live.Assigns++
					}
					break
				}
				if mm := regexp.MustCompile(`^([^ ()=+-]+) = (\+\+|--)([^ ()=+-]+)$`).FindStringSubmatch(op.Value); mm != nil {
					// the value of a prefix operation assigned to ANOTHER variable: both are written
					cur, _ := m.get(mm[3])
					nv, ok := cleanInt(cur)
					if mm[1] == mm[3] || !ok {
						parts = append(parts, "skip")
						break
					}
					if mm[2] == "++" {
						nv++
					} else {
						nv--
					}
					sim.Yield(gosim.PCallerMark)
					n, err := env.Eval(op.Value)
					parts = append(parts, fmt.Sprintf("eval %q n=%d %s", op.Value, n, DumpErr(err)))
					if err != nil {
						add("unexpected-eval-error", fmt.Sprintf("%s: %v", desc, err))
					} else {
						m.vars[mm[3]] = strconv.Itoa(nv)
						m.vars[mm[1]] = strconv.Itoa(nv)
						live.Assigns++
					}
					break
				}
				plan, val := m.arithPlan(op.Value, op.Name)
				if plan == "skip" {
					parts = append(parts, "skip")
					break
				}
				sim.Yield(gosim.PCallerMark)
				n, err := env.Eval(op.Value)
				parts = append(parts, fmt.Sprintf("eval %q n=%d %s", op.Value, n, DumpErr(err)))
				switch plan {
				case "apply":
					if err != nil {
						add("unexpected-eval-error", fmt.Sprintf("%s: %v", desc, err))
					} else {
						m.vars[op.Name] = val
						live.Assigns++
					}
				case "error":
					if err == nil {
						add("missing-arith-error", fmt.Sprintf("%s: an operand holds a non-numeric value but Eval succeeded", desc))
					}
				}
			case "expand":
				arith := strings.HasPrefix(op.Value, "$((")
				aplan, aval := "", ""
				if arith {
					aplan, aval = m.arithPlan(strings.TrimSuffix(strings.TrimPrefix(op.Value, "$(("), "))"), op.Name)
					if aplan == "skip" {
						parts = append(parts, "skip")
						break
					}
				}
				cmd, _, err := parser.ParseCommand("w", ": "+op.Value)
				var word ast.Word
				if err == nil {
					if cx, ok := cmd.(*ast.Cmd); ok {
						if sc, ok := cx.Expr.(*ast.SimpleCmd); ok && len(sc.Args) >= 2 {
							word = sc.Args[1]
							// words with blanks split into several arguments: keep only templates that are one word
							if len(sc.Args) != 2 {
								word = nil
							}
						}
					}
				}
				if word == nil {
					parts = append(parts, "skip-unparsable")
					break
				}
				sim.Yield(gosim.PCallerMark)
				before := Dump(word, 0)
				fields, err := env.Expand(word, interp.ExpMode(op.Mode))
				parts = append(parts, fmt.Sprintf("expand %q -> %q %s", op.Value, fields, DumpErr(err)))
				if after := Dump(word, 0); after != before {
					add("ast-modified", fmt.Sprintf("%s: the word given to Expand was modified: %s", desc, firstDiff(before, after)))
				}
				// the value delivered: "${N}" as if in double quotes (or literally) is exactly the parameter's value
				if err == nil && op.Value == "${"+op.Name+"}" && op.Name != "@" && op.Name != "*" && (op.Mode == uint(interp.Quote) || op.Mode == uint(interp.Literal)) {
					mv, _ := m.get(op.Name)
					if op.Name == "-" {
						if len(fields) == 1 && sortLetters(fields[0]) != sortLetters(mv) {
							add("expansion-differs-from-model", fmt.Sprintf("%s: fields %q, model value %q", desc, fields, mv))
						}
					} else if len(fields) != 1 || fields[0] != mv {
						add("expansion-differs-from-model", fmt.Sprintf("%s: fields %q, model value %q", desc, fields, mv))
					}
				}
				// "$@" / "$*" reflect Args: one field per positional parameter / the IFS-joined string
				if err == nil && op.Value == "${"+op.Name+"}" && op.Mode == uint(interp.Quote) && len(m.args) > 1 {
					switch op.Name {
					case "@":
						if fmt.Sprintf("%q", fields) != fmt.Sprintf("%q", m.args[1:]) {
							add("expansion-differs-from-model", fmt.Sprintf("%s: fields %q, positional parameters %q", desc, fields, m.args[1:]))
						}
					case "*":
						sep := " "
						if v, ok := m.vars["IFS"]; ok {
							sep = ""
							if v != "" {
								sep = string([]rune(v)[:1])
							}
						}
						if len(sep) > 0 && sep[0] >= 0x80 {
							break // a multi-byte IFS separator is C13/C14's business, not C20's
						}
						if want := strings.Join(m.args[1:], sep); len(fields) != 1 || fields[0] != want {
							add("expansion-differs-from-model", fmt.Sprintf("%s: fields %q, expected [%q]", desc, fields, want))
						}
					}
				}
				// model effect
				val, set := m.get(op.Name)
				null := val == ""
				inner := ""
				if i := strings.Index(op.Value, "}"); i > 0 && strings.HasPrefix(op.Value, "${") {
					inner = op.Value[2+len(op.Name) : i]
				}
				nestedAssign := func(target, value string, used bool) {
					// w is expanded only when it is used; then its arithmetic assignment happens
					if used && err == nil {
						m.vars[target] = value
						live.Assigns++
					}
				}
				switch {
				case strings.Contains(op.Value, ":=${IFS:=:}"):
					// the word assigns IFS (when unset or null) and yields one field per positional parameter; what is
					// substituted is the value that was assigned
					need := !set || null
					switch {
					case !need:
					case isSpecial(op.Name) || isPositional(op.Name):
						if err == nil {
							add("assigned-special", fmt.Sprintf("%s: assigning a special/positional parameter did not fail", desc))
						}
					case err == nil:
						if v, ok := m.vars["IFS"]; !ok || v == "" {
							m.vars["IFS"] = ":"
						}
						stored, _ := env.Get(op.Name)
						if op.Mode == uint(interp.Literal) && (len(fields) != 1 || fields[0] != stored.Value) {
							add("assigned-value-differs-from-expansion", fmt.Sprintf("%s: substituted %q but stored %q", desc, fields, stored.Value))
						}
						m.vars[op.Name] = stored.Value
						live.Assigns++
					}
				case strings.Contains(inner, "$((_y1=_y1+1))"):
					// the pattern word is expanded (once) when the parameter is set and not null
					if cur, ok := cleanInt(m.vars["_y1"]); ok && set && !null && err == nil {
						m.vars["_y1"] = strconv.Itoa(cur + 1)
						live.Assigns++
					} else if !ok && set && !null {
						// _y1 holds something else: the effect is not pinned here; resynchronise the model
						if v, s2 := env.Get("_y1"); s2 {
							m.vars["_y1"] = v.Value
						}
					}
				case strings.Contains(inner, "$((_y1=7))"):
					need := !set || null
					if need && !isSpecial(op.Name) && !isPositional(op.Name) {
						nestedAssign("_y1", "7", true)
						if err == nil {
							m.vars[op.Name] = "7"
						}
					} else if need && err == nil {
						add("assigned-special", fmt.Sprintf("%s: assigning a special/positional parameter did not fail", desc))
					}
				case strings.Contains(inner, "$((X=3))"):
					nestedAssign("X", "3", !set || null)
				case strings.Contains(inner, "$((X=4))"):
					nestedAssign("X", "4", set && !null)
				case arith:
					switch aplan {
					case "apply":
						if err != nil {
							add("unexpected-eval-error", fmt.Sprintf("%s: %v", desc, err))
						} else {
							m.vars[op.Name] = aval
							live.Assigns++
						}
					case "error":
						if err == nil {
							add("missing-arith-error", fmt.Sprintf("%s: an operand holds a non-numeric value but the expansion succeeded", desc))
						}
					}
				case strings.HasPrefix(inner, ":=") || strings.HasPrefix(inner, "="):
					colon := strings.HasPrefix(inner, ":=")
					w := strings.TrimPrefix(strings.TrimPrefix(inner, ":"), "=")
					need := !set || (colon && null)
					if need {
						if isSpecial(op.Name) || isPositional(op.Name) {
							if err == nil {
								add("assigned-special", fmt.Sprintf("%s: assigning a special/positional parameter did not fail", desc))
							}
						} else if err == nil {
							m.vars[op.Name] = m.wordValue(w)
							live.Assigns++
						}
					}
				case strings.HasPrefix(inner, ":?") || strings.HasPrefix(inner, "?"):
					colon := strings.HasPrefix(inner, ":?")
					if (!set || (colon && null)) && err == nil {
						add("missing-error", fmt.Sprintf("%s: expected an error for an unset/null parameter", desc))
					}
				}
			}
			// ---- compare with the model (how much is looked at is part of the history; the last step looks at everything)
			observe := op.Observe
			if si == len(c.History)-1 {
				observe = 2
			}
			universe := append(append(append([]string{}, c20Ordinary...), "#", "?", "-", "!", "0"), c20Positional...)
			switch observe {
			case 0:
				universe = nil
			case 1:
				universe = nil
				if op.Name != "" && op.Name != "@" && op.Name != "*" {
					universe = []string{op.Name}
				}
			}
			for _, n := range universe {
				v, set := env.Get(n)
				mv, mset := m.get(n)
				got, want := v.Value, mv
				if n == "-" {
					got, want = sortLetters(got), sortLetters(want)
				}
				if n == "-" || n == "!" || n == "0" {
					// whether an EMPTY special parameter counts as "set" is not pinned by C20: compare values only
					if !set {
						got = ""
					}
					if !mset {
						want = ""
					}
					if got != want {
						add("store-differs-from-model", fmt.Sprintf("after %s: Get(%q) = (%q, %v), model says (%q, %v)", desc, n, v.Value, set, mv, mset))
					}
					continue
				}
				if set != mset || (set && got != want) {
					add("store-differs-from-model", fmt.Sprintf("after %s: Get(%q) = (%q, %v), model says (%q, %v)", desc, n, v.Value, set, mv, mset))
				}
			}
			if observe == 2 {
				var walked []string
				env.Walk(func(v interp.Var) {
					if len(c.Vars) != 0 && (isSpecial(v.Name) || isPositional(v.Name)) {
						return // imported from the process environment: what Walk makes of such names is not pinned
					}
					walked = append(walked, v.Name+"="+v.Value)
				})
				sort.Strings(walked)
				var want []string
				for k, v := range m.vars {
					want = append(want, k+"="+v)
				}
				sort.Strings(want)
				// compared as sorted LISTS: an entry enumerated twice is a difference
				if strings.Join(walked, "\x00") != strings.Join(want, "\x00") {
					add("walk-differs-from-model", fmt.Sprintf("after %s: Walk gives %q, model has %q", desc, walked, want))
				}
			}
			if sibling != nil && observe == 2 {
				if now := dumpEnv(sibling); now != siblingSnap {
					add("sibling-environment-changed", fmt.Sprintf("after %s: another ExecEnv created from the same process environment changed: %s", desc, firstDiff(siblingSnap, now)))
				}
			}
			if fmt.Sprintf("%q", env.Args) != fmt.Sprintf("%q", m.args) {
				add("args-modified", fmt.Sprintf("after %s: Args = %q, expected %q", desc, env.Args, m.args))
			}
			if uint(env.Opts) != m.opts {
				add("opts-modified", fmt.Sprintf("after %s: Opts = %d, expected %d", desc, env.Opts, m.opts))
			}
			if fmt.Sprint(env.Aliases) != fmt.Sprint(aliases) {
				add("aliases-modified", fmt.Sprintf("after %s: Aliases = %v", desc, env.Aliases))
			}
		}
		parts = append(parts, dumpEnv(env))
	}
	o.Res = gosim.RunInBubble(t, sim, body)
	o.Parts = parts
	o.Dump = joinParts(parts)
	return o
}

func (c20) Judge(c *Case, obs []*Obs) []Finding {
	var fs []Finding
	seen := map[string]bool{}
	add := func(f Finding) {
		if !seen[f.Class] {
			seen[f.Class] = true
			fs = append(fs, f)
		}
	}
	for i, o := range obs {
		for _, f := range simFindings(o, i, gosim.VDeadlock, gosim.VStepBudget, gosim.VCallerPanic, gosim.VAliveAtReturn, gosim.VLeak) {
			add(f)
		}
		if live, ok := o.Live.(*c20Live); ok {
			for _, f := range live.Findings {
				f.Obs = []int{i}
				add(f)
			}
		}
		if i > 0 && o.Dump != obs[0].Dump {
			add(Finding{Class: "result-differs", Obs: []int{0, i}, Detail: firstDiff(obs[0].Dump, o.Dump)})
		}
	}
	return fs
}

func (c20) Nontrivial(c *Case, obs []*Obs) bool {
	for _, o := range obs {
		if live, ok := o.Live.(*c20Live); ok && live.Assigns > 0 && live.Muts > 0 {
			return true
		}
	}
	return false
}
