package props

import (
	"fmt"
	"reflect"
	"sort"
	"strings"
	"testing"

	"github.com/hattya/go.sh/ast"

	"verifsim/gen"
	"verifsim/gosim"
)

// C08 — here-document bodies are attached to the right redirection, verbatim.
type c08 struct{}

func init() {
	Register(c08{})
	rules["C08"] = "a case is one generated complete command carrying here-documents (0-3 per redirection site; simple and compound commands, pipelines, lists, inside $( ); '<<' and '<<-'; unquoted / 'q' / \"q\" / \\q / partially quoted delimiters; bodies from a pool with empty first lines, prefixes/suffixes of the delimiter, tab-indented lines, $x, ${y}, $(a b), backquotes, backslashes) parsed under parser-first, lexer-first and seeded schedules. Oracle: nil error; the <</<<- Redir nodes of the AST in source order (sorted by operator position) correspond one to one to the generator's list: delimiter after quote removal, body text reproduced byte for byte by the harness's own unparser, expansion nodes in the body iff no part of the delimiter was quoted; identical result under every schedule. non-trivial = at least one here-document; distinct = distinct command"
}

func (c08) ID() string { return "C08" }

func (c08) NumCases(tier string) int {
	if tier == "thorough" {
		return 150000
	}
	return 18000
}

func (p c08) Gen(seed uint64, tier string, idx int) (*Case, bool) {
	return p.build(gen.FromSeed(gosim.Mix(seed, 0xC08, uint64(idx)))), true
}

func (p c08) Regen(tier string, c *Case, tape []uint32) *Case { return p.build(gen.FromTape(tape)) }

func (c08) build(src *gen.Source) *Case {
	o := gen.FullOpts()
	o.HDBias = true
	o.MaxDepth = 1 + src.Intn(3)
	c := &Case{Kind: "parse", Reader: gosim.ReaderPlan{Kind: "scanner", FaultAt: -1}}
	switch src.Intn(4) {
	case 0:
		c.Reader.Kind = "string"
	case 1:
		c.Reader.Kind = "reader"
		c.Reader.Chunk = []int{0, 1, 5}[src.Intn(3)]
	}
	g := gen.NewG(src, o)
	it := g.CompleteCommand(false)
	for it.Blank {
		it = g.CompleteCommand(false)
	}
	c.Src = it.Text
	for _, h := range it.HDs {
		c.Heredocs = append(c.Heredocs, HereDoc{Op: h.Op, Delim: h.Delim, Quoted: h.Quoted, Body: h.Body})
	}
	c.GenTape = src.Rec
	return c
}

func (c08) Plan(seed uint64, tier string, idx int, c *Case) []Sched {
	s := []Sched{{PolicyIdx: 0}, {PolicyIdx: 1}, {PolicyIdx: 2 + idx%7, Seed: gosim.Mix(seed, 0x5C4ED, uint64(idx))}}
	if tier == "thorough" {
		s = append(s, Sched{PolicyIdx: 9 + idx%5, Seed: gosim.Mix(seed, 0x5C4EE, uint64(idx))})
	}
	return s
}

func (c08) Run(t *testing.T, c *Case, s Sched, keepLog bool) *Obs {
	return RunParse(t, c, s, keepLog)
}

var redirType = reflect.TypeOf(&ast.Redir{})

// collectRedirs finds every *ast.Redir reachable from v.
func collectRedirs(v reflect.Value, out *[]*ast.Redir, depth int) {
	if !v.IsValid() || depth > 300 {
		return
	}
	switch v.Kind() {
	case reflect.Interface:
		if !v.IsNil() {
			collectRedirs(v.Elem(), out, depth+1)
		}
	case reflect.Ptr:
		if v.IsNil() {
			return
		}
		if v.Type() == redirType {
			*out = append(*out, v.Interface().(*ast.Redir))
		}
		collectRedirs(v.Elem(), out, depth+1)
	case reflect.Struct:
		for i := 0; i < v.NumField(); i++ {
			if v.Type().Field(i).PkgPath != "" {
				continue // unexported (ast.Pos internals)
			}
			collectRedirs(v.Field(i), out, depth+1)
		}
	case reflect.Slice:
		for i := 0; i < v.Len(); i++ {
			collectRedirs(v.Index(i), out, depth+1)
		}
	}
}

// unparseHD renders here-document word parts back to source text. It supports
// exactly the shapes the body pool can produce; anything else is reported.
func unparseHD(w ast.Word, removeQuotes bool) (string, error) {
	var b strings.Builder
	for _, p := range w {
		switch p := p.(type) {
		case *ast.Lit:
			b.WriteString(p.Value)
		case *ast.Quote:
			inner, err := unparseHD(p.Value, removeQuotes)
			if err != nil {
				return "", err
			}
			switch {
			case removeQuotes:
				b.WriteString(inner)
			case p.Tok == `\`:
				b.WriteString(`\` + inner)
			default:
				b.WriteString(p.Tok + inner + p.Tok)
			}
		case *ast.ParamExp:
			if p.Op != "" || p.Word != nil {
				return "", fmt.Errorf("unexpected parameter expansion operator %q in a here-document", p.Op)
			}
			if p.Braces {
				b.WriteString("${" + p.Name.Value + "}")
			} else {
				b.WriteString("$" + p.Name.Value)
			}
		case *ast.CmdSubst:
			var words []string
			if len(p.List) != 1 {
				return "", fmt.Errorf("command substitution with %d commands", len(p.List))
			}
			cmd, ok := p.List[0].(*ast.Cmd)
			if !ok {
				return "", fmt.Errorf("command substitution holds %T", p.List[0])
			}
			sc, ok := cmd.Expr.(*ast.SimpleCmd)
			if !ok || len(cmd.Redirs) != 0 || len(sc.Assigns) != 0 {
				return "", fmt.Errorf("command substitution holds %T", cmd.Expr)
			}
			for _, a := range sc.Args {
				s, err := unparseHD(a, false)
				if err != nil {
					return "", err
				}
				words = append(words, s)
			}
			if p.Dollar {
				b.WriteString("$(" + strings.Join(words, " ") + ")")
			} else {
				b.WriteString("`" + strings.Join(words, " ") + "`")
			}
		case *ast.ArithExp:
			s, err := unparseHD(p.Expr, false)
			if err != nil {
				return "", err
			}
			b.WriteString("$((" + s + "))")
		default:
			return "", fmt.Errorf("unexpected word part %T", p)
		}
	}
	return b.String(), nil
}

// bodyMustExpand: the body text contains something POSIX expands in an unquoted
// here-document ($name, ${, $(, a backquote, or a backslash before $ ` \). A
// backslash before an ordinary character is literal text and proves nothing.
func bodyMustExpand(body string) bool {
	for _, m := range []string{"$x", "${", "$(", "`", "\\$", "\\`", "\\\\"} {
		if strings.Contains(body, m) {
			return true
		}
	}
	return false
}

// hdShape: the sequence of expansions and escapes POSIX finds in an unquoted here-document body, by an
// independent scan of the text: "E<c>" backslash before $ ` \ (escape of c), "P" parameter expansion,
// "C" command substitution, "A" arithmetic expansion. A backslash before a newline is a continuation
// (dropped); before anything else it is literal text. ok=false: a shape this scanner does not cover.
func hdShape(body string) (shape []string, ok bool) {
	rs := []rune(body)
	isName := func(r rune) bool {
		return r == '_' || r >= 'a' && r <= 'z' || r >= 'A' && r <= 'Z' || r >= '0' && r <= '9'
	}
	for i := 0; i < len(rs); i++ {
		switch rs[i] {
		case '\\':
			if i+1 < len(rs) {
				switch rs[i+1] {
				case '$', '`', '\\':
					shape = append(shape, "E"+string(rs[i+1]))
					i++
				case '\n':
					i++
				case '"':
					return nil, false // go.sh treats \" as an escape here (a deviation of another property)
				}
			}
		case '`':
			j := i + 1
			for j < len(rs) && rs[j] != '`' {
				if rs[j] == '\\' {
					j++
				}
				j++
			}
			if j >= len(rs) {
				return nil, false
			}
			shape = append(shape, "C")
			i = j
		case '$':
			if i+1 >= len(rs) {
				continue
			}
			switch {
			case rs[i+1] == '(':
				kind := "C"
				if i+2 < len(rs) && rs[i+2] == '(' {
					kind = "A"
				}
				depth, j := 0, i+1
				for ; j < len(rs); j++ {
					if rs[j] == '(' {
						depth++
					} else if rs[j] == ')' {
						depth--
						if depth == 0 {
							break
						}
					} else if rs[j] == '\'' || rs[j] == '"' || rs[j] == '\\' || rs[j] == '#' {
						return nil, false
					}
				}
				if j >= len(rs) {
					return nil, false
				}
				shape = append(shape, kind)
				i = j
			case rs[i+1] == '{':
				j := i + 2
				for j < len(rs) && rs[j] != '}' {
					if !isName(rs[j]) {
						return nil, false
					}
					j++
				}
				if j >= len(rs) {
					return nil, false
				}
				shape = append(shape, "P")
				i = j
			case isName(rs[i+1]) || strings.ContainsRune("@*#?-$!", rs[i+1]):
				shape = append(shape, "P")
				if isName(rs[i+1]) && !(rs[i+1] >= '0' && rs[i+1] <= '9') {
					for i+1 < len(rs) && isName(rs[i+1]) {
						i++
					}
				} else {
					i++
				}
			}
		}
	}
	return shape, true
}

// astShape: the same sequence read off the top-level parts of the body word.
func astShape(w ast.Word) []string {
	var shape []string
	for _, p := range w {
		switch p := p.(type) {
		case *ast.Quote:
			if p.Tok == `\` {
				v, _ := unparseHD(p.Value, false)
				if v == "\n" {
					continue // line continuation
				}
				shape = append(shape, "E"+v)
			} else {
				shape = append(shape, "Q"+p.Tok)
			}
		case *ast.ParamExp:
			shape = append(shape, "P")
		case *ast.CmdSubst:
			shape = append(shape, "C")
		case *ast.ArithExp:
			shape = append(shape, "A")
		}
	}
	return shape
}

// dropContinuations removes backslash-newline pairs, escape-aware ("\\\\" followed by a newline is an escaped
// backslash and a newline, not a continuation).
func dropContinuations(s string) string {
	var b strings.Builder
	for i := 0; i < len(s); i++ {
		if s[i] == '\\' && i+1 < len(s) {
			if s[i+1] == '\n' {
				i++
				continue
			}
			b.WriteByte(s[i])
			b.WriteByte(s[i+1])
			i++
			continue
		}
		b.WriteByte(s[i])
	}
	return b.String()
}

func hasExpansion(w ast.Word) bool {
	for _, p := range w {
		if _, ok := p.(*ast.Lit); !ok {
			return true
		}
	}
	return false
}

func (c08) Judge(c *Case, obs []*Obs) []Finding {
	var fs []Finding
	seen := map[string]bool{}
	add := func(f Finding) {
		if !seen[f.Class] {
			seen[f.Class] = true
			fs = append(fs, f)
		}
	}
	for oi, o := range obs {
		for _, f := range simFindings(o, oi, gosim.VDeadlock, gosim.VStepBudget, gosim.VReaderBudget, gosim.VCallerPanic) {
			add(f)
		}
		live, _ := o.Live.(*ParseLive)
		if live == nil || len(live.Errs) == 0 {
			continue
		}
		if live.Errs[0] != nil {
			add(Finding{Class: "rejected", Obs: []int{oi}, Detail: fmt.Sprintf("generated command with %d here-documents rejected: %v", len(c.Heredocs), live.Errs[0])})
			continue
		}
		var all []*ast.Redir
		collectRedirs(reflect.ValueOf(live.Cmds[0]), &all, 0)
		var hds []*ast.Redir
		for _, r := range all {
			if r.Op == "<<" || r.Op == "<<-" {
				hds = append(hds, r)
			}
		}
		sort.SliceStable(hds, func(i, j int) bool { return hds[i].OpPos.Before(hds[j].OpPos) })
		if len(hds) != len(c.Heredocs) {
			add(Finding{Class: "heredoc-count", Obs: []int{oi}, Detail: fmt.Sprintf("AST has %d here-document redirections, the source has %d", len(hds), len(c.Heredocs))})
			continue
		}
		for i, r := range hds {
			want := c.Heredocs[i]
			if r.Op != want.Op {
				add(Finding{Class: "heredoc-order", Obs: []int{oi}, Detail: fmt.Sprintf("here-document %d: operator %q, expected %q", i, r.Op, want.Op)})
				break
			}
			if d, err := unparseHD(r.Word, true); err != nil || d != want.Delim {
				add(Finding{Class: "heredoc-delimiter", Obs: []int{oi}, Detail: fmt.Sprintf("here-document %d: delimiter word unquotes to %q (%v), expected %q", i, d, err, want.Delim)})
				break
			}
			body, err := unparseHD(r.Heredoc, false)
			if err != nil {
				add(Finding{Class: "heredoc-body-shape", Obs: []int{oi}, Detail: fmt.Sprintf("here-document %d (%s %s): %v", i, want.Op, want.Delim, err)})
				break
			}
			wantBody := want.Body
			if !want.Quoted {
				// backslash-newline is a line continuation in an expanding here-document: compare modulo its removal
				wantBody = dropContinuations(wantBody)
				body = dropContinuations(body)
			}
			if body != wantBody {
				add(Finding{Class: "heredoc-body", Obs: []int{oi}, Detail: fmt.Sprintf("here-document %d (%s %s): body %q, expected %q", i, want.Op, want.Delim, shortStr(body, 200), shortStr(want.Body, 200))})
				break
			}
			if !want.Quoted {
				if ws, ok := hdShape(want.Body); ok {
					if gs := astShape(r.Heredoc); strings.Join(gs, " ") != strings.Join(ws, " ") {
						add(Finding{Class: "heredoc-expansion-shape", Obs: []int{oi}, Detail: fmt.Sprintf("here-document %d: the body %q holds the expansions/escapes %v, the tree has %v", i, shortStr(want.Body, 120), ws, gs)})
						break
					}
				}
			}
			if want.Quoted && hasExpansion(r.Heredoc) {
				add(Finding{Class: "heredoc-expanded-though-quoted", Obs: []int{oi}, Detail: fmt.Sprintf("here-document %d: delimiter was quoted but the body was scanned for expansions", i)})
				break
			}
			if !want.Quoted && bodyMustExpand(want.Body) && !hasExpansion(r.Heredoc) {
				add(Finding{Class: "heredoc-not-expanded", Obs: []int{oi}, Detail: fmt.Sprintf("here-document %d: delimiter unquoted but the body %q holds no expansion node", i, shortStr(want.Body, 100))})
				break
			}
			if r.Delim == nil {
				continue // how (and whether) the closing line is kept in the tree is not pinned by C08
			}
			dl, err := unparseHD(r.Delim, false)
			dl = strings.TrimLeft(dl, "\t")
			if err != nil || dl != want.Delim {
				add(Finding{Class: "heredoc-delimiter-line", Obs: []int{oi}, Detail: fmt.Sprintf("here-document %d: closing line %q, expected %q", i, dl, want.Delim)})
				break
			}
		}
		if oi > 0 && o.Dump != obs[0].Dump {
			add(Finding{Class: "result-differs", Obs: []int{0, oi}, Detail: firstDiff(obs[0].Dump, o.Dump)})
		}
	}
	return fs
}

func (c08) Nontrivial(c *Case, obs []*Obs) bool { return len(c.Heredocs) > 0 }
