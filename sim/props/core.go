// Package props holds the per-property workloads and oracles.
package props

import (
	"encoding/json"
	"fmt"
	"sort"
	"strings"
	"testing"

	"verifsim/gosim"
)

// Case is one explicit, replayable workload item. Everything a run depends on
// besides the schedule is in here (no seeds).
type Case struct {
	Kind    string           `json:"kind"` // parse | stream | eval | expand | history | print
	Src     string           `json:"src,omitempty"`
	Src2    string           `json:"src2,omitempty"` // parse2: the source of the second, independent caller
	Reader  gosim.ReaderPlan `json:"reader"`
	Aliases [][2]string      `json:"aliases,omitempty"`

	// eval / expand / history
	Vars    [][2]string `json:"vars,omitempty"`
	Args    []string    `json:"args,omitempty"`
	Opts    uint        `json:"opts,omitempty"`
	History []Op        `json:"history,omitempty"`

	// print
	Cfg    int              `json:"cfg,omitempty"`
	Writer gosim.WriterPlan `json:"writer,omitempty"`

	// oracle data computed by the generator (explicit, so that replays do not depend on it)
	CmdEnds   []int     `json:"cmd_ends,omitempty"` // C07: byte offset just after each complete command
	Heredocs  []HereDoc `json:"heredocs,omitempty"` // C08: expected here-documents in source order
	Note      string    `json:"note,omitempty"`
	GenTape   []uint32  `json:"gen_tape,omitempty"`  // generator choice tape (for shrinking); not part of the case identity
	Mode      uint      `json:"mode,omitempty"`      // expand: ExpMode
	DFS       int       `json:"dfs,omitempty"`       // >0: walk ALL schedule tapes of this case depth-first (at most this many runs) instead of the planned schedules
	Bystander bool      `json:"bystander,omitempty"` // parse/stream with a reader source: after the last call, an unrelated ParseCommands call from a plain io.Reader is made before the reader is looked at again
	SrcName   string    `json:"src_name,omitempty"`  // the name argument of ParseCommands ("" = "sim")
	Inherit   bool      `json:"inherit,omitempty"`   // history: the environment keeps what it inherited from the process (HOME, PATH, IFS) and a sibling environment created at the same time is watched
}

type HereDoc struct {
	Op     string `json:"op"`     // "<<" or "<<-"
	Delim  string `json:"delim"`  // delimiter after quote removal
	Quoted bool   `json:"quoted"` // any part of the delimiter word was quoted
	Body   string `json:"body"`   // body text as written in the source (for <<-: as written, tabs included)
}

type Op struct {
	Op      string   `json:"op"` // set unset get walk args opts expand eval
	Name    string   `json:"name,omitempty"`
	Value   string   `json:"value,omitempty"`
	Args    []string `json:"args,omitempty"`
	Opts    uint     `json:"opts,omitempty"`
	Mode    uint     `json:"mode,omitempty"`
	Observe int      `json:"observe,omitempty"` // C20: how much is observed after this step: 0 nothing, 1 the name touched, 2 everything
}

func (c *Case) Key() string {
	cc := *c
	cc.GenTape = nil
	cc.Note = ""
	b, _ := json.Marshal(&cc)
	return string(b)
}

// Sched describes how one execution is scheduled: either a policy with a seed
// (exploration) or an explicit choice tape (replay).
type Sched struct {
	PolicyIdx int      `json:"policy_idx"`
	Seed      uint64   `json:"seed"`
	Tape      []uint32 `json:"tape,omitempty"`
	UseTape   bool     `json:"use_tape,omitempty"`
	Policy    string   `json:"policy,omitempty"` // informational
}

// Obs is what one simulated execution showed.
type Obs struct {
	Sched                    Sched
	Res                      gosim.Result
	Dump                     string   // canonical dump of everything the call(s) returned
	Parts                    []string // per-call dumps (stream / history)
	ErrNil                   bool
	ErrInjected              bool // errors.Is(err, ErrInjected)
	ErrNoProgress            bool
	ErrText                  string
	PosAtReturn              []int // reader offset when each call returned
	PosAfterDrain            int
	Fired, FiredBeforeReturn bool
	ReaderOps                int
	ReaderEOFs               int
	ReaderReads              int // ReadRune calls
	UnreadAfterUnread        int
	Faults                   map[string]int    // fault kind -> times fired in this run
	SubRuns                  int               // simulated runs aggregated in this observation (0: it is one run)
	Extra                    map[string]string // property specific observations
	Live                     interface{}       // live objects for property-specific oracles (not serialised)
}

// Finding is a property violation (or a harness problem) established by an oracle.
type Finding struct {
	Class   string `json:"class"`
	Detail  string `json:"detail"`
	Obs     []int  `json:"obs,omitempty"`     // indices of the observations involved
	Harness bool   `json:"harness,omitempty"` // true: machinery trouble, not a verdict
	Narrow  *Case  `json:"narrow,omitempty"`  // the specific sub-case that fails (e.g. one fault position of an enumerated case)
}

// Regenerator is implemented by properties whose cases can be rebuilt from a
// generator choice tape (used for shrinking).
type Regenerator interface {
	Regen(tier string, c *Case, tape []uint32) *Case
}

// Property is the interface every claimed property implements.
type Property interface {
	ID() string
	// NumCases returns how many case indices the tier enumerates.
	NumCases(tier string) int
	// Gen builds case idx (pure function of seed, tier, idx). ok=false skips the index.
	Gen(seed uint64, tier string, idx int) (c *Case, ok bool)
	// Plan returns the schedules to run for a case.
	Plan(seed uint64, tier string, idx int, c *Case) []Sched
	// Run performs one simulated execution.
	Run(t *testing.T, c *Case, s Sched, keepLog bool) *Obs
	// Judge applies the oracle to all observations of a case.
	Judge(c *Case, obs []*Obs) []Finding
	// Nontrivial classifies a case for the evidence counters.
	Nontrivial(c *Case, obs []*Obs) bool
}

var registry = map[string]Property{}

func Register(p Property)       { registry[p.ID()] = p }
func Lookup(id string) Property { return registry[id] }
func IDs() []string {
	var ids []string
	for k := range registry {
		ids = append(ids, k)
	}
	sort.Strings(ids)
	return ids
}

// MakeSim builds the simulator for a schedule.
func MakeSim(s Sched, keepLog bool) *gosim.Sim {
	var pol gosim.Policy
	rng := gosim.NewRng(gosim.Mix(s.Seed, 0x5c4ed))
	pol = gosim.PickPolicy(rng, s.PolicyIdx)
	sim := gosim.New(pol, gosim.Mix(s.Seed, 0x5eed))
	if s.UseTape {
		sim.Replay = s.Tape
		if sim.Replay == nil {
			sim.Replay = []uint32{}
		}
	}
	sim.KeepLog = keepLog
	return sim
}

// simViolations converts simulator-level invariant violations into findings,
// keeping only the classes listed in want.
func simFindings(o *Obs, idx int, want ...string) []Finding {
	var fs []Finding
	seen := map[string]bool{}
	if o.Res.BubbleErr != "" {
		// synctest found goroutines of this run still blocked when everything else had finished: a goroutine
		// the call started and did not join (also one that carries no hook, e.g. a helper started by open())
		leakWanted := false
		for _, w := range want {
			if w == gosim.VLeak {
				leakWanted = true
			}
		}
		reported := false
		for _, v := range o.Res.Violations {
			if v.Class == gosim.VLeak || v.Class == gosim.VDeadlock || v.Class == gosim.VStepBudget {
				reported = true
			}
		}
		if leakWanted && !reported {
			fs = append(fs, Finding{Class: "goroutine-left-behind", Detail: "after the run: " + o.Res.BubbleErr, Obs: []int{idx}})
		}
	}
	for _, v := range o.Res.Violations {
		ok := false
		for _, w := range want {
			if v.Class == w {
				ok = true
			}
		}
		if v.Class == gosim.VHookSanity {
			fs = append(fs, Finding{Class: v.Class, Detail: v.Detail, Obs: []int{idx}, Harness: true})
			continue
		}
		if !ok || seen[v.Class] {
			continue
		}
		seen[v.Class] = true
		fs = append(fs, Finding{Class: v.Class, Detail: v.Detail, Obs: []int{idx}})
	}
	return fs
}

func shortStr(s string, n int) string {
	if len(s) <= n {
		return s
	}
	return s[:n] + fmt.Sprintf("…(+%d)", len(s)-n)
}

func firstDiff(a, b string) string {
	i := 0
	for i < len(a) && i < len(b) && a[i] == b[i] {
		i++
	}
	lo := i - 40
	if lo < 0 {
		lo = 0
	}
	return fmt.Sprintf("at byte %d: %q vs %q", i, shortStr(a[lo:], 120), shortStr(b[lo:], 120))
}

func joinParts(p []string) string { return strings.Join(p, "\n---\n") }

var rules = map[string]string{}

// RuleFor returns the evidence "rule" text a property registered.
func RuleFor(id string) string { return rules[id] }

var exhaustive = map[string]func(tier string) map[string]int{}

// ExhaustiveSpaces returns the finite sub-spaces (case kind -> size) a property enumerates completely in a tier.
func ExhaustiveSpaces(id, tier string) map[string]int {
	if f := exhaustive[id]; f != nil {
		return f(tier)
	}
	return nil
}

// SrcNames: name arguments handed to ParseCommands (names are data: a name that looks like a format
// string, is empty or holds odd characters must make no difference to what is returned as the error).
var SrcNames = []string{"", "", "my%20scripts/run.sh", "100%.sh", "%s", "%!d(x)", "a b\tc", "é/日本.sh", "%w"}

func (c *Case) srcName() string {
	if c.SrcName == "" {
		return "sim"
	}
	return c.SrcName
}

// Tick is called by long sequential checks (C18) to tell the worker's watchdog that they are alive.
var Tick = func() {}
